package c04

import (
	"bytes"
	"fmt"
	"sort"
	"strings"

	"github.com/zclconf/go-cty/cty"
	"github.com/zclconf/go-cty/cty/function/stdlib"

	"verif/harness/core"
	"verif/harness/gen"
	"verif/harness/mon"
)

// callFn is one library entry point applied to an input tuple.
type callFn func(args []cty.Value) (cty.Value, error)

// pair is one case: the same call on unmarked and on marked inputs.
type pair struct {
	site     string // "Value.Add", "convert.Convert", "cty.SetVal", "stdlib.concat", "function.Call"
	family   string // ops, convert, setval, stdlib, spec
	label    string // call text without arguments, e.g. "Add" or "Convert(->cty.List(cty.String))"
	unmarked []cty.Value
	marked   []cty.Value
	call     callFn
	// promised[k] = what is promised for input k: "top" (top-level marks must be on
	// the result), "deep" (every mark anywhere inside must be on the result), "" (nothing).
	promised []string
	pname    []string // name of input k for the class of a lost-mark violation
	// setval: additionally no member of the result may be marked
	setval bool
	// convTarget (convert family): the requested type. docs/marks.md promises that a conversion also carries the
	// marks of nested values to the corresponding nested value "or simplifies them to marks on a container"; read
	// weakly: every mark on a member the conversion keeps is found somewhere in the result.
	convTarget *cty.Type
	// extra is called on the marked run's result (spec family: spy observations)
	extra func(c *core.Ctx, p *pair)
}

type outcome struct {
	ok    bool
	kind  string // value, error, panic, nilval
	v     cty.Value
	msg   string
	stack string
}

func (o outcome) failClass() string {
	switch o.kind {
	case "panic":
		return "panic: " + core.PanicClass(o.msg)
	case "error":
		return "error: " + core.PanicClass(o.msg)
	}
	return o.kind
}

func (o outcome) String() string {
	if o.ok {
		return fmt.Sprintf("value %#v", o.v)
	}
	s := o.kind + ": " + o.msg
	if o.stack != "" {
		s += "\n" + o.stack
	}
	return s
}

func run(c *core.Ctx, call callFn, args []cty.Value) (o outcome) {
	in := make([]cty.Value, len(args))
	copy(in, args)
	var v cty.Value
	var err error
	g := core.Guard(func() { v, err = call(in) })
	c.Eval(1)
	switch {
	case g.Panicked:
		return outcome{kind: "panic", msg: g.PanicMsg, stack: g.Stack}
	case err != nil:
		return outcome{kind: "error", msg: err.Error()}
	case v == cty.NilVal:
		return outcome{kind: "nilval", msg: "NilVal returned without an error"}
	}
	return outcome{ok: true, kind: "value", v: v}
}

// runShared is run without the private copy of the argument slice.
func runShared(c *core.Ctx, call callFn, args []cty.Value) (o outcome) {
	var v cty.Value
	var err error
	g := core.Guard(func() { v, err = call(args) })
	c.Eval(1)
	switch {
	case g.Panicked:
		return outcome{kind: "panic", msg: g.PanicMsg}
	case err != nil:
		return outcome{kind: "error", msg: err.Error()}
	case v == cty.NilVal:
		return outcome{kind: "nilval"}
	}
	return outcome{ok: true, kind: "value", v: v}
}

// markedText lists the marks of a value at every depth (path and sorted mark set; the payload itself is not C04's
// subject): two values of one payload have the same text iff they carry the same marks at the same places.
func markedText(v cty.Value) string {
	var sb strings.Builder
	g := core.Guard(func() {
		_, pvm := v.UnmarkDeepWithPaths()
		lines := make([]string, 0, len(pvm))
		for _, e := range pvm {
			var ps strings.Builder
			for _, st := range e.Path {
				switch t := st.(type) {
				case cty.GetAttrStep:
					ps.WriteString("." + t.Name)
				case cty.IndexStep:
					k, _ := t.Key.Unmark()
					switch {
					case !k.IsKnown() || k.IsNull():
						ps.WriteString("[?]")
					case k.Type() == cty.String:
						ps.WriteString("[" + k.AsString() + "]")
					case k.Type() == cty.Number:
						ps.WriteString("[" + k.AsBigFloat().Text('g', 20) + "]")
					default:
						ps.WriteString("[*]")
					}
				}
			}
			lines = append(lines, ps.String()+"="+marksText(e.Marks))
		}
		sort.Strings(lines)
		sb.WriteString("marks{" + strings.Join(lines, "; ") + "}")
	})
	if g.Panicked {
		return "unprintable: " + g.PanicMsg
	}
	return sb.String()
}

func sameMarks(a, b cty.ValueMarks) bool { return mon.MarksSubset(a, b) && mon.MarksSubset(b, a) }

// resEqual is the "same result" comparator: marks ignored at every depth,
// documented equality, unknowns by range, sets as sets; the stdlib bytes
// capsule by content.
func resEqual(a, b cty.Value) (eq bool) {
	a, _ = a.Unmark()
	b, _ = b.Unmark()
	if a.Type().Equals(stdlib.Bytes) && b.Type().Equals(stdlib.Bytes) && a.IsKnown() && b.IsKnown() && !a.IsNull() && !b.IsNull() {
		x, ok1 := a.EncapsulatedValue().(*[]byte)
		y, ok2 := b.EncapsulatedValue().(*[]byte)
		return ok1 && ok2 && bytes.Equal(*x, *y)
	}
	g := core.Guard(func() { eq = mon.ModelEqual(a, b) })
	if g.Panicked {
		// not comparable by the model (foreign capsule): fall back to the
		// library's own structural comparison after stripping marks
		g2 := core.Guard(func() { eq = mon.StripMarks(a).RawEquals(mon.StripMarks(b)) })
		if g2.Panicked {
			return false
		}
	}
	return eq
}

func fmtVals(a []cty.Value) string {
	p := make([]string, len(a))
	for i, v := range a {
		p[i] = fmt.Sprintf("%#v", v)
	}
	return strings.Join(p, ", ")
}

func marksText(m cty.ValueMarks) string {
	var s []string
	for k := range m {
		s = append(s, fmt.Sprint(k))
	}
	sort.Strings(s)
	return "{" + strings.Join(s, ",") + "}"
}

func minus(a, b cty.ValueMarks) cty.ValueMarks {
	out := cty.ValueMarks{}
	for k := range a {
		if _, ok := b[k]; !ok {
			out[k] = struct{}{}
		}
	}
	return out
}

// markStats classifies where marks sit in v.
type markStats struct {
	top, nested       int
	onUnknown, onNull int
	multi             int // positions carrying two marks
}

func (s *markStats) walk(v cty.Value, top bool) {
	u, m := v.Unmark()
	if len(m) > 0 {
		if top {
			s.top++
		} else {
			s.nested++
		}
		if !u.IsKnown() {
			s.onUnknown++
		} else if u.IsNull() {
			s.onNull++
		}
		if len(m) > 1 {
			s.multi++
		}
	}
	if !u.IsKnown() || u.IsNull() {
		return
	}
	ty := u.Type()
	if ty.IsCollectionType() || ty.IsTupleType() || ty.IsObjectType() {
		for it := u.ElementIterator(); it.Next(); {
			_, ev := it.Element()
			s.walk(ev, false)
		}
	}
}

// Escalation: a marked result that differs from the first unmarked result is
// compared with the results of repeated unmarked runs, because Equals (and
// everything built on it) is order-dependent on partly unknown objects/maps
// (F-27, C20's subject): the rarer branch of a nested comparison can have a
// probability well below 1/64. Up to escalateRuns repetitions are made (stopping
// at the first match). To bound the cost when a genuine defect produces
// thousands of differing pairs, a batch has a budget of repetitions; once it is
// spent only escalateShort repetitions are made.
const (
	escalateRuns   = 3000
	escalateShort  = 64
	escalateBudget = 150_000
)

var escalateSpent int

// escalate re-runs the unmarked call until match(outcome) is true. It reports
// whether a match was found and whether the unmarked outcomes varied.
func escalate(c *core.Ctx, p *pair, first outcome, match func(outcome) bool) (found, spread bool) {
	n := escalateRuns
	if escalateSpent > escalateBudget {
		n = escalateShort
	}
	for k := 0; k < n; k++ {
		x := run(c, p.call, p.unmarked)
		escalateSpent++
		if match(x) {
			return true, true
		}
		if !spread && (x.ok != first.ok || (x.ok && !resEqual(x.v, first.v))) {
			spread = true
		}
	}
	return false, spread
}

// checkPair executes one case and applies every clause of the property.
func checkPair(c *core.Ctx, idx int64, p *pair) {
	desc := func() string {
		return fmt.Sprintf("%s %s unmarked(%s) marked(%s)", p.site, p.label, fmtVals(p.unmarked), fmtVals(p.marked))
	}
	c.Begin(idx, desc)
	c.Count("family:" + p.family)
	c.Count("site:" + p.site)

	// generator self-check: the marked tuple with marks stripped is the unmarked tuple
	var st markStats
	all := cty.ValueMarks{}
	for k := range p.marked {
		st.walk(p.marked[k], !p.setval)
		for m := range mon.DeepMarks(p.marked[k]) {
			all[m] = struct{}{}
		}
		if len(mon.DeepMarks(p.unmarked[k])) != 0 || !resEqual(mon.StripMarks(p.marked[k]), p.unmarked[k]) {
			c.Count("generator:self-check-failed")
			c.Distinct(desc(), false)
			return
		}
	}
	switch {
	case st.top > 0 && st.nested > 0:
		c.Count("placement:top+nested")
	case st.top > 0:
		c.Count("placement:top-only")
	case st.nested > 0:
		c.Count("placement:nested-only")
	default:
		c.Count("placement:none")
	}
	if st.onUnknown > 0 {
		c.Count("placement:on-unknown")
	}
	if st.onNull > 0 {
		c.Count("placement:on-null")
	}
	if st.multi > 0 {
		c.Count("placement:two-marks-on-one-position")
	}
	if len(all) > 1 {
		c.Count("placement:several-distinct-marks")
	}

	// what the marked inputs look like before anything is called (clause 6)
	pre := make([]string, len(p.marked))
	hist := len(all) > 0 && idx%2 == 0 // clause 6 runs on every second case
	if hist {
		for k, v := range p.marked {
			pre[k] = markedText(v)
		}
	}
	o0 := run(c, p.call, p.unmarked)
	o1 := run(c, p.call, p.marked)
	if hist {
		for k := range p.marked {
			if now := markedText(p.marked[k]); now != pre[k] {
				c.Violate(p.site, "an input value carries other marks after the call", "input value", desc(),
					fmt.Sprintf("input %d was %s, after the call it is %s", k, pre[k], now))
				return
			}
		}
	}
	nontrivial := len(all) > 0 && o0.ok
	c.Distinct(desc(), nontrivial)
	if nontrivial {
		c.Count("nontrivial:" + p.family)
		if p.family == "stdlib" {
			c.Count("nontrivial:" + p.site)
		}
	}
	site := p.site

	// clause 1: same outcome class
	if o0.ok != o1.ok {
		// rule out run-to-run variation that has nothing to do with marks
		seen, _ := escalate(c, p, o0, func(x outcome) bool { return x.ok == o1.ok })
		if seen {
			c.Count("clause:outcome/unmarked-run-varies")
			c.CrossNote("C20", site+": repeated unmarked runs differ in outcome", desc())
			return
		}
		if o0.ok {
			c.Violate(site, "marked run failed although the unmarked run succeeded", o1.failClass(), desc(),
				fmt.Sprintf("unmarked: %s\nmarked: %s", o0, o1))
		} else {
			c.Violate(site, "marked run succeeded although the unmarked run failed", o0.failClass(), desc(),
				fmt.Sprintf("unmarked: %s\nmarked: %s", o0, o1))
		}
		return
	}
	if !o0.ok {
		c.Count("clause:outcome/both-failed")
		if o0.kind != o1.kind {
			c.Count("note:failure-kind-differs(" + o0.kind + "/" + o1.kind + ")")
		}
		return
	}
	c.Count("clause:outcome/both-succeeded")
	r0, r1 := o0.v, o1.v
	if w := mon.WellFormed(r1); w != "" {
		c.CrossNote("C06", site+": "+w, desc())
	}
	if err := cty.VerifWellFormed(r1); err != nil {
		c.CrossNote("C06", site+": (hook) "+core.PanicClass(err.Error()), desc())
	}
	switch {
	case !r0.IsKnown():
		c.Count("result:unknown")
	case r0.IsNull():
		c.Count("result:null")
	case !r0.IsWhollyKnown():
		c.Count("result:partly-known")
	default:
		c.Count("result:known")
	}

	// clause 5a: the unmarked run cannot carry any mark
	if m := mon.DeepMarks(r0); len(m) > 0 {
		c.Violate(site, "result of the unmarked run carries a mark", "", desc(), fmt.Sprintf("unmarked result %#v", r0))
	}

	// clause 2: same result once marks are stripped
	c.Count("clause:same-result")
	if !resEqual(r1, r0) {
		found, spread := escalate(c, p, o0, func(x outcome) bool { return x.ok && resEqual(r1, x.v) })
		if found || spread {
			c.CrossNote("C20", site+": repeated unmarked runs give different results", desc())
		}
		if found {
			c.Count("clause:same-result/unmarked-run-varies")
		} else {
			c.Violate(site, "result differs once marks are stripped", diffClass(r0, r1), desc(),
				fmt.Sprintf("unmarked result %#v\nmarked result   %#v", r0, r1))
		}
	}

	// clause 3: promised marks are present on the result
	got := r1.Marks()
	for k, what := range p.promised {
		var want cty.ValueMarks
		switch what {
		case "top":
			want = p.marked[k].Marks()
		case "deep":
			want = mon.DeepMarks(p.marked[k])
		default:
			continue
		}
		if len(want) == 0 {
			continue
		}
		c.Count("clause:promised-" + what)
		if !mon.MarksSubset(want, cty.ValueMarks(got)) {
			cls := what + " marks of " + p.pname[k]
			switch {
			case !r1.IsKnown():
				cls += "; unknown result"
			case r1.IsNull():
				cls += "; null result"
			}
			c.Violate(site, "promised mark missing from the result", cls, desc(),
				fmt.Sprintf("input %d carries %s, result.Marks() = %s; marked result %#v", k, marksText(want), marksText(got), r1))
		}
	}

	// clause 3b (conversions): marks on nested members that the conversion keeps are somewhere in the result
	if p.convTarget != nil {
		// which members are kept is read off the type of the result (a target with placeholders lets unification
		// choose, and unifying object types may drop attributes)
		rty := r0.Type()
		want := cty.ValueMarks{}
		keptMarks(p.marked[0], rty, want)
		if len(want) > len(p.marked[0].Marks()) {
			c.Count("clause:promised-kept-nested")
			if have := mon.DeepMarks(r1); !mon.MarksSubset(want, have) {
				c.Violate(site, "mark on a nested member that the conversion keeps is nowhere in the result", lostNestedClass(p.marked[0], rty, have), desc(),
					fmt.Sprintf("kept members carry %s, the result carries %s; marked result %#v", marksText(want), marksText(have), r1))
			}
		}
	}

	// clause 4 (set constructor): no member of the set is marked
	if p.setval {
		c.Count("clause:setval-no-marked-member")
		inner, _ := r1.Unmark()
		if m := mon.DeepMarks(inner); len(m) > 0 {
			c.Violate(site, "member of the constructed set is marked", "", desc(), fmt.Sprintf("result %#v", r1))
		}
	}

	// clause 5b: no mark that no input carried
	c.Count("clause:never-invented")
	if extra := minus(mon.DeepMarks(r1), all); len(extra) > 0 {
		c.Violate(site, "result carries a mark that no input carried", "", desc(),
			fmt.Sprintf("invented %s; marked result %#v", marksText(extra), r1))
	}
	if len(mon.DeepMarks(r1)) > 0 {
		c.Count("result:carries-marks")
		if len(got) == 0 {
			c.Count("result:nested-marks-only")
		}
	}
	// clause 6 (history): the call leaves its inputs alone and answers the same the second time. The marked inputs
	// are handed over in ONE slice that is used for two calls in a row, the way a caller evaluates one argument list
	// twice: afterwards the slice still holds the same marked values (a mark stripped from the caller's slice is a
	// mark lost on the second call; a mark that appeared on an input value is a mark no input carried), and the
	// second result carries the marks the first one carried.
	if hist {
		c.Count("clause:inputs-untouched-and-repeatable")
		shared := append([]cty.Value(nil), p.marked...)
		a := runShared(c, p.call, shared)
		for k := range shared {
			if now := markedText(shared[k]); now != pre[k] {
				c.Violate(site, "the call changed the marks in the argument list it was given", "caller's slice", desc(),
					fmt.Sprintf("argument %d was %s, after the call the caller's slice holds %s", k, pre[k], now))
				return
			}
			if now := markedText(p.marked[k]); now != pre[k] {
				c.Violate(site, "an input value carries other marks after the call", "input value", desc(),
					fmt.Sprintf("input %d was %s, after the call it is %s", k, pre[k], now))
				return
			}
		}
		b := runShared(c, p.call, shared)
		if a.ok && b.ok && !sameMarks(mon.DeepMarks(a.v), mon.DeepMarks(b.v)) && sameMarks(mon.DeepMarks(a.v), mon.DeepMarks(r1)) {
			c.Violate(site, "second call with the same argument list returns other marks", "", desc(),
				fmt.Sprintf("first result %#v, second result %#v", a.v, b.v))
		}
	}
	if p.extra != nil {
		p.extra(c, p)
	}
	if c.WantSample() && nontrivial {
		c.Sample(map[string]any{"call": p.site + " " + p.label, "unmarked": fmtVals(p.unmarked), "marked": fmtVals(p.marked),
			"unmarked_result": fmt.Sprintf("%#v", r0), "marked_result": fmt.Sprintf("%#v", r1)})
	}
}

// diffClass is a coarse, stable class for a result difference.
func diffClass(r0, r1 cty.Value) string {
	u1, _ := r1.Unmark()
	switch {
	case !r0.Type().Equals(u1.Type()):
		return "type"
	case r0.IsKnown() != u1.IsKnown():
		return "known-vs-unknown"
	case !r0.IsKnown():
		return "range of unknown result"
	case r0.IsNull() != u1.IsNull():
		return "nullness"
	}
	return "value"
}

// ---- mark placement ---------------------------------------------------------

// markInputs places marks on a copy of the unmarked tuple. canNest[k] says
// whether nested placement is meaningful for input k (always true; nested
// placement on a primitive degenerates to none). At least one mark is placed.
func markInputs(r *core.Rand, u []cty.Value) []cty.Value {
	m := make([]cty.Value, len(u))
	mode := r.Weighted([]int{25, 30, 30, 15})
	for try := 0; try < 4; try++ {
		for k, v := range u {
			switch mode {
			case 0: // top level only, random subset
				if r.Bool() {
					m[k] = gen.MarkSome(r, v, 100, 0)
				} else {
					m[k] = v
				}
			case 1: // nested only
				m[k] = gen.MarkSome(r, v, 0, 20+r.Intn(40))
			case 2: // subset of top levels plus nested
				top := 0
				if r.Bool() {
					top = 100
				}
				m[k] = gen.MarkSome(r, v, top, 10+r.Intn(30))
			default:
				m[k] = gen.MarkSome(r, v, 40, 15)
			}
		}
		for _, v := range m {
			if len(mon.DeepMarks(v)) > 0 {
				return m
			}
		}
	}
	k := r.Intn(len(u))
	m[k] = gen.MarkSome(r, u[k], 100, 0)
	return m
}

// keptMarks collects into out the marks of v and of every nested member of v that a conversion to target keeps:
// everything except what sits below an object attribute (or map key) that an object-typed target does not declare.
func keptMarks(v cty.Value, target cty.Type, out cty.ValueMarks) {
	keptWalk(v, target, func(m cty.ValueMarks, _ cty.Value, _ string) {
		for k := range m {
			out[k] = struct{}{}
		}
	})
}

func keptWalk(v cty.Value, target cty.Type, visit func(m cty.ValueMarks, unmarked cty.Value, tkind string)) {
	u, m := v.Unmark()
	if len(m) > 0 {
		visit(m, u, kindWord(target))
	}
	if !u.IsKnown() || u.IsNull() {
		return
	}
	ty := u.Type()
	dyn := cty.DynamicPseudoType
	switch {
	case ty.IsListType() || ty.IsSetType() || ty.IsTupleType():
		i := 0
		for it := u.ElementIterator(); it.Next(); i++ {
			_, ev := it.Element()
			et := dyn
			switch {
			case target.IsListType() || target.IsSetType():
				et = target.ElementType()
			case target.IsTupleType():
				if ets := target.TupleElementTypes(); i < len(ets) {
					et = ets[i]
				}
			}
			keptWalk(ev, et, visit)
		}
	case ty.IsMapType() || ty.IsObjectType():
		for it := u.ElementIterator(); it.Next(); {
			kv, ev := it.Element()
			et := dyn
			switch {
			case target.IsMapType():
				et = target.ElementType()
			case target.IsObjectType():
				ku, _ := kv.Unmark()
				if !ku.IsKnown() || ku.IsNull() || !target.HasAttribute(ku.AsString()) {
					continue // dropped by the conversion
				}
				et = target.AttributeType(ku.AsString())
			}
			keptWalk(ev, et, visit)
		}
	}
}

func kindWord(t cty.Type) string {
	switch {
	case t == cty.DynamicPseudoType:
		return "dynamic"
	case t.IsPrimitiveType():
		return "primitive"
	case t.IsListType():
		return "list"
	case t.IsSetType():
		return "set"
	case t.IsMapType():
		return "map"
	case t.IsTupleType():
		return "tuple"
	case t.IsObjectType():
		return "object"
	}
	return "other"
}

// lostNestedClass names the first kept member whose marks are missing: what it is and what it is converted to.
func lostNestedClass(v cty.Value, target cty.Type, have cty.ValueMarks) string {
	cls := ""
	top := true
	keptWalk(v, target, func(m cty.ValueMarks, u cty.Value, tkind string) {
		if top {
			top = false
			if len(v.Marks()) > 0 {
				return
			}
		}
		if cls != "" || mon.MarksSubset(m, have) {
			return
		}
		switch {
		case !u.IsKnown():
			cls = "unknown member"
		case u.IsNull():
			cls = "null member"
		default:
			cls = "known " + kindWord(u.Type()) + " member"
		}
		cls += " -> " + tkind
	})
	return cls
}
