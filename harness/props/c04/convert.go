package c04

import (
	"errors"
	"fmt"

	"github.com/zclconf/go-cty/cty"
	"github.com/zclconf/go-cty/cty/convert"

	"verif/harness/core"
	"verif/harness/gen"
)

// targetFor derives a conversion target from the source type so that a good
// share of conversions succeeds: the type itself, kind changes list/set/tuple
// and map/object, element conversions, dropped and added (optional)
// attributes, placeholders, and now and then an unrelated type.
func targetFor(r *core.Rand, ty cty.Type, depth int) cty.Type {
	if r.Chance(1, 14) {
		return cty.DynamicPseudoType
	}
	if r.Chance(1, 25) {
		return gen.Type(r, 2, gen.TypeOpts{Dynamic: true}).Cty()
	}
	if depth <= 0 {
		return ty
	}
	switch {
	case ty == cty.DynamicPseudoType:
		if r.Bool() {
			return ty
		}
		return gen.Type(r, 2, gen.TypeOpts{}).Cty()
	case ty.IsPrimitiveType():
		switch r.Intn(6) {
		case 0:
			return cty.String
		case 1:
			return cty.Number
		case 2:
			return cty.Bool
		}
		return ty
	case ty.IsListType():
		e := targetFor(r, ty.ElementType(), depth-1)
		if r.Chance(1, 3) {
			return cty.Set(e)
		}
		return cty.List(e)
	case ty.IsSetType():
		e := targetFor(r, ty.ElementType(), depth-1)
		if r.Chance(1, 2) {
			return cty.List(e)
		}
		return cty.Set(e)
	case ty.IsMapType():
		e := targetFor(r, ty.ElementType(), depth-1)
		if r.Chance(1, 3) {
			attrs := map[string]cty.Type{}
			var opt []string
			for _, k := range []string{"a", "b", "c", "k", "x", "long-key"} {
				if r.Chance(1, 2) {
					attrs[k] = e
					if r.Chance(1, 2) {
						opt = append(opt, k)
					}
				}
			}
			return cty.ObjectWithOptionalAttrs(attrs, opt)
		}
		return cty.Map(e)
	case ty.IsTupleType():
		ets := ty.TupleElementTypes()
		switch r.Intn(4) {
		case 0:
			if r.Bool() {
				return cty.List(cty.DynamicPseudoType)
			}
			return cty.Set(cty.DynamicPseudoType)
		case 1:
			if len(ets) > 0 {
				e := targetFor(r, ets[r.Intn(len(ets))], depth-1)
				if r.Bool() {
					return cty.List(e)
				}
				return cty.Set(e)
			}
		}
		out := make([]cty.Type, len(ets))
		for i, e := range ets {
			out[i] = targetFor(r, e, depth-1)
		}
		return cty.Tuple(out)
	case ty.IsObjectType():
		ats := ty.AttributeTypes()
		if r.Chance(1, 4) {
			if r.Bool() {
				return cty.Map(cty.DynamicPseudoType)
			}
			for _, k := range sortedAttrNames(ats) {
				return cty.Map(targetFor(r, ats[k], depth-1))
			}
			return cty.Map(cty.String)
		}
		attrs := map[string]cty.Type{}
		var opt []string
		for _, k := range sortedAttrNames(ats) {
			if r.Chance(1, 6) {
				continue // dropped attribute
			}
			attrs[k] = targetFor(r, ats[k], depth-1)
			if r.Chance(1, 5) {
				opt = append(opt, k)
			}
		}
		if r.Chance(1, 4) {
			attrs["opt"] = gen.Type(r, 2, gen.TypeOpts{}).Cty()
			opt = append(opt, "opt")
		}
		return cty.ObjectWithOptionalAttrs(attrs, opt)
	}
	return ty
}

func sortedAttrNames(m map[string]cty.Type) []string {
	var ks []string
	for k := range m {
		ks = append(ks, k)
	}
	for i := 1; i < len(ks); i++ {
		for j := i; j > 0 && ks[j] < ks[j-1]; j-- {
			ks[j], ks[j-1] = ks[j-1], ks[j]
		}
	}
	return ks
}

func convertPair(via string, want cty.Type, u, m cty.Value) *pair {
	var call callFn
	site := "convert.Convert"
	switch via {
	case "Convert":
		call = func(a []cty.Value) (cty.Value, error) { return convert.Convert(a[0], want) }
	default:
		site = "convert.GetConversionUnsafe"
		call = func(a []cty.Value) (cty.Value, error) {
			conv := convert.GetConversionUnsafe(a[0].Type(), want)
			if conv == nil {
				if a[0].Type().Equals(want) {
					return a[0], nil
				}
				return cty.NilVal, errors.New("no conversion available")
			}
			return conv(a[0])
		}
	}
	return &pair{
		site: site, family: "convert", label: fmt.Sprintf("(-> %#v)", want),
		unmarked: []cty.Value{u}, marked: []cty.Value{m},
		call: call, promised: []string{"top"}, pname: []string{"the converted value"},
		convTarget: &want,
	}
}

// capsuleConvertCase draws a conversion that goes through the conversion
// callbacks of a capsule type.
func capsuleConvertCase(r *core.Rand) (cty.Value, cty.Type) {
	k := func() int { return r.Intn(20) } // a few are out of range: conversion error
	switch r.Intn(6) {
	case 0:
		return newCapC(k()), cty.String
	case 1:
		return cty.NumberIntVal(int64(k())), capsuleC
	case 2:
		return cty.ListVal([]cty.Value{newCapC(k()), newCapC(k())}), cty.List(cty.String)
	case 3:
		return cty.ListVal([]cty.Value{cty.NumberIntVal(int64(k())), cty.NumberIntVal(int64(k()))}), []cty.Type{cty.List(capsuleC), cty.Set(capsuleC)}[r.Intn(2)]
	case 4:
		return cty.TupleVal([]cty.Value{cty.NumberIntVal(int64(k())), newCapC(k())}), cty.Tuple([]cty.Type{capsuleC, cty.String})
	}
	return cty.ObjectVal(map[string]cty.Value{"a": newCapC(k()), "b": cty.UnknownVal(capsuleC)}), cty.Map(cty.String)
}

func genConvertCase(r *core.Rand) *pair {
	if r.Chance(1, 16) {
		u, want := capsuleConvertCase(r)
		return convertPair("Convert", want, u, markInputs(r, []cty.Value{u})[0])
	}
	to := gen.TypeOpts{Dynamic: r.Chance(1, 4)}
	ty := gen.Type(r, 3, to).Cty()
	vo := richOpts(r)
	vo.ExactNums = false
	vo.SmallNums = r.Bool()
	u := gen.Value(r, ty, vo)
	want := targetFor(r, u.Type(), 3)
	m := markInputs(r, []cty.Value{u})[0]
	via := "Convert"
	if r.Chance(1, 4) {
		via = "GetConversionUnsafe"
	}
	return convertPair(via, want, u, m)
}

// ---- set constructor --------------------------------------------------------

func setValPair(u, m []cty.Value) *pair {
	prom := make([]string, len(u))
	names := make([]string, len(u))
	for i := range prom {
		prom[i] = "deep"
		names[i] = "a member"
	}
	return &pair{
		site: "cty.SetVal", family: "setval", label: fmt.Sprintf("(%d members)", len(u)),
		unmarked: u, marked: m,
		call:     func(a []cty.Value) (cty.Value, error) { return cty.SetVal(a), nil },
		promised: prom, pname: names, setval: true,
	}
}

func genSetValCase(r *core.Rand) *pair {
	ety := gen.Type(r, 3, gen.TypeOpts{}).Cty()
	vo := richOpts(r)
	vo.SmallNums = true
	n := 1 + r.Intn(4)
	u := make([]cty.Value, n)
	for i := range u {
		if i > 0 && r.Chance(1, 5) {
			u[i] = u[r.Intn(i)] // duplicate member: same value, possibly different marks
		} else {
			u[i] = gen.Value(r, ety, vo)
		}
	}
	if r.Chance(1, 10) {
		// a dynamically-typed member (DynamicVal or an untyped null) next to typed ones, at any position: SetVal
		// accepts it (the element type becomes dynamic); whatever the constructor decides from ONE member's type
		// must not be applied to the others
		d := cty.DynamicVal
		if r.Bool() {
			d = cty.NullVal(cty.DynamicPseudoType)
		}
		at := r.Intn(len(u) + 1)
		if r.Chance(1, 2) {
			at = 0
		}
		u = append(u[:at:at], append([]cty.Value{d}, u[at:]...)...)
	}
	return setValPair(u, markInputs(r, u))
}
