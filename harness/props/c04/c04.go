// Package c04: marks never change results, are never lost where promised, never invented.
//
// Every case is a PAIR of executions of the real library: the same call on the
// inputs with all marks stripped and on the inputs with marks placed at the top
// level and/or on nested members. The oracle (pair.go) compares the two
// outcomes and inspects the marks of the marked run's result.
package c04

import (
	"verif/harness/core"
)

type Driver struct{}

func (Driver) ID() string { return "C04" }

func (Driver) Info() core.Info {
	return core.Info{
		Title: "marks never change results, are never lost where promised, never invented",
		Rule: "case = (call, unmarked input tuple, marked input tuple): call in {21 operation methods, convert.Convert / GetConversionUnsafe, cty.SetVal, " +
			"every function of cty/function/stdlib (+ MakeToFunc instances), generated function.Spec values with random AllowMarked/AllowUnknown/AllowNull/AllowDynamicType flags}; " +
			"inputs from typed generators (known / null / refined unknown at any depth, nested collections depth<=3); marks = 3 distinct marks placed on a non-empty subset of the top-level " +
			"operands and/or on nested members (members handed to SetVal may be marked); plus a fixed corpus and an exhaustive enumeration of top-level mark subsets over an operand catalogue. " +
			"distinct = hash of (call, unmarked inputs, marked inputs); non-trivial = at least one mark was placed and the unmarked run succeeded",
		Assumptions: []string{
			"'same result' is mon.ModelEqual of the marked run's result (marks ignored at every depth) and the unmarked run's result: documented equality, unknowns by range, sets as sets",
			"'outcome' is success (a value) vs failure (panic or error); which error message a failing call reports is not compared",
			"a marked result that differs from the first unmarked result is compared with the results of up to 3000 repeated unmarked runs (Equals is order-dependent on partly unknown objects/maps, F-27); spread inside that set is handed to C20",
			"'present on the result' is read as present in result.Marks() (top level), which is where every documented mechanism re-applies marks",
			"for parameters that declare AllowMarked only non-interference and no-invention are demanded",
			"where nested marks end up after a conversion is not demanded (docs allow simplification onto a container)",
		},
		MinNontrivial: 30000,
	}
}

func (Driver) Batches(tier string) int {
	if tier == "thorough" {
		return 64
	}
	return 16
}

func (Driver) Run(c *core.Ctx) {
	escalateSpent = 0
	n := int64(c.N(120000, 300000))
	for i := int64(0); i < n; i++ {
		if !c.Want(i) {
			continue
		}
		r := c.RNG(i)
		var p *pair
		switch r.Weighted([]int{28, 20, 8, 34, 10}) {
		case 0:
			p = genOpCase(r)
		case 1:
			p = genConvertCase(r)
		case 2:
			p = genSetValCase(r)
		case 3:
			p = genStdlibCase(r)
		default:
			p = genSpecCase(r)
		}
		if p == nil {
			c.Count("generator:no-case")
			continue
		}
		checkPair(c, i, p)
	}
	if c.Batch == 0 {
		runCorpus(c, 1_000_000_000)
	}
	runEnumeration(c, 2_000_000_000)
}
