package c04

import (
	"fmt"
	"reflect"

	"github.com/zclconf/go-cty/cty"
)

// capC is a capsule type with value equality and conversions from number and
// to string. Encapsulated pointers are interned so that pointer identity is
// content equality (the result comparator then needs no special case).
type capC struct{ X int }

var capCPool = func() []*capC {
	p := make([]*capC, 16)
	for i := range p {
		p[i] = &capC{i}
	}
	return p
}()

var capsuleC cty.Type

func init() {
	capsuleC = cty.CapsuleWithOps("capC", reflect.TypeOf(capC{}), &cty.CapsuleOps{
		GoString:     func(v interface{}) string { return fmt.Sprintf("capC(%d)", v.(*capC).X) },
		TypeGoString: func(reflect.Type) string { return "capC" },
		Equals:       func(a, b interface{}) cty.Value { return cty.BoolVal(a.(*capC).X == b.(*capC).X) },
		RawEquals:    func(a, b interface{}) bool { return a.(*capC).X == b.(*capC).X },
		HashKey:      func(v interface{}) string { return fmt.Sprintf("capC:%d", v.(*capC).X) },
		ConversionFrom: func(dst cty.Type) func(interface{}, cty.Path) (cty.Value, error) {
			if dst != cty.String {
				return nil
			}
			return func(v interface{}, _ cty.Path) (cty.Value, error) {
				return cty.StringVal(fmt.Sprintf("cap:%d", v.(*capC).X)), nil
			}
		},
		ConversionTo: func(src cty.Type) func(cty.Value, cty.Path) (interface{}, error) {
			if src != cty.Number {
				return nil
			}
			return func(v cty.Value, p cty.Path) (interface{}, error) {
				if v.IsMarked() {
					return nil, p.NewErrorf("capsule conversion received a marked value")
				}
				f := v.AsBigFloat()
				i, acc := f.Int64()
				if acc != 0 || i < 0 || i >= int64(len(capCPool)) {
					return nil, p.NewErrorf("out of range for capC")
				}
				return capCPool[i], nil
			}
		},
	})
}

func newCapC(x int) cty.Value { return cty.CapsuleVal(capsuleC, capCPool[x%len(capCPool)]) }
