package c04

import (
	"fmt"

	"github.com/zclconf/go-cty/cty"

	"verif/harness/core"
	"verif/harness/gen"
)

type opDef struct {
	name  string
	arity int
	kind  string // num2, num1, bool2, bool1, eq, index, hasindex, getattr, haselement, length
	call  func(a []cty.Value, attr string) cty.Value
}

var ops = []opDef{
	{"Equals", 2, "eq", func(a []cty.Value, _ string) cty.Value { return a[0].Equals(a[1]) }},
	{"NotEqual", 2, "eq", func(a []cty.Value, _ string) cty.Value { return a[0].NotEqual(a[1]) }},
	{"Add", 2, "num2", func(a []cty.Value, _ string) cty.Value { return a[0].Add(a[1]) }},
	{"Subtract", 2, "num2", func(a []cty.Value, _ string) cty.Value { return a[0].Subtract(a[1]) }},
	{"Multiply", 2, "num2", func(a []cty.Value, _ string) cty.Value { return a[0].Multiply(a[1]) }},
	{"Divide", 2, "num2", func(a []cty.Value, _ string) cty.Value { return a[0].Divide(a[1]) }},
	{"Modulo", 2, "num2", func(a []cty.Value, _ string) cty.Value { return a[0].Modulo(a[1]) }},
	{"Negate", 1, "num1", func(a []cty.Value, _ string) cty.Value { return a[0].Negate() }},
	{"Absolute", 1, "num1", func(a []cty.Value, _ string) cty.Value { return a[0].Absolute() }},
	{"LessThan", 2, "num2", func(a []cty.Value, _ string) cty.Value { return a[0].LessThan(a[1]) }},
	{"GreaterThan", 2, "num2", func(a []cty.Value, _ string) cty.Value { return a[0].GreaterThan(a[1]) }},
	{"LessThanOrEqualTo", 2, "num2", func(a []cty.Value, _ string) cty.Value { return a[0].LessThanOrEqualTo(a[1]) }},
	{"GreaterThanOrEqualTo", 2, "num2", func(a []cty.Value, _ string) cty.Value { return a[0].GreaterThanOrEqualTo(a[1]) }},
	{"Not", 1, "bool1", func(a []cty.Value, _ string) cty.Value { return a[0].Not() }},
	{"And", 2, "bool2", func(a []cty.Value, _ string) cty.Value { return a[0].And(a[1]) }},
	{"Or", 2, "bool2", func(a []cty.Value, _ string) cty.Value { return a[0].Or(a[1]) }},
	{"Index", 2, "index", func(a []cty.Value, _ string) cty.Value { return a[0].Index(a[1]) }},
	{"HasIndex", 2, "hasindex", func(a []cty.Value, _ string) cty.Value { return a[0].HasIndex(a[1]) }},
	{"GetAttr", 1, "getattr", func(a []cty.Value, n string) cty.Value { return a[0].GetAttr(n) }},
	{"HasElement", 2, "haselement", func(a []cty.Value, _ string) cty.Value { return a[0].HasElement(a[1]) }},
	{"Length", 1, "length", func(a []cty.Value, _ string) cty.Value { return a[0].Length() }},
}

func opByName(name string) opDef {
	for _, o := range ops {
		if o.name == name {
			return o
		}
	}
	panic("no op " + name)
}

var operandNames = []string{"the receiver", "the argument"}

func opPair(op opDef, attr string, unmarked, marked []cty.Value) *pair {
	label := op.name
	if op.kind == "getattr" {
		label = fmt.Sprintf("GetAttr(%q)", attr)
	}
	prom := make([]string, len(unmarked))
	names := make([]string, len(unmarked))
	for i := range prom {
		prom[i] = "top"
		names[i] = operandNames[i]
	}
	return &pair{
		site: "Value." + op.name, family: "ops", label: label,
		unmarked: unmarked, marked: marked,
		call:     func(a []cty.Value) (cty.Value, error) { return op.call(a, attr), nil },
		promised: prom, pname: names,
	}
}

// unknownish draws a number/bool operand that may be unknown, refined or null.
func numOperand(r *core.Rand) cty.Value {
	switch r.Intn(12) {
	case 0:
		return gen.Unknown(r, cty.Number, true)
	case 1:
		return cty.UnknownVal(cty.Number)
	case 2:
		if r.Bool() {
			return cty.DynamicVal
		}
		return cty.NullVal(cty.Number)
	case 3:
		return cty.Zero
	}
	return gen.ExactNumber(r).V
}

func boolOperand(r *core.Rand) cty.Value {
	switch r.Intn(10) {
	case 0:
		return gen.Unknown(r, cty.Bool, true)
	case 1:
		if r.Bool() {
			return cty.DynamicVal
		}
		return cty.NullVal(cty.Bool)
	}
	return cty.BoolVal(r.Bool())
}

func richOpts(r *core.Rand) gen.ValueOpts {
	vo := gen.ValueOpts{MaxLen: 3, ExactNums: true, Refined: true}
	if r.Chance(1, 2) {
		vo.UnknownPct = 4 + r.Intn(12)
	}
	if r.Chance(1, 2) {
		vo.NullPct = 3 + r.Intn(8)
	}
	return vo
}

// opOperands draws an operand tuple (no marks) for op.
func opOperands(r *core.Rand, op opDef) ([]cty.Value, string) {
	vo := richOpts(r)
	to := gen.TypeOpts{Dynamic: r.Chance(1, 4)}
	switch op.kind {
	case "num2":
		return []cty.Value{numOperand(r), numOperand(r)}, ""
	case "num1":
		return []cty.Value{numOperand(r)}, ""
	case "bool2":
		return []cty.Value{boolOperand(r), boolOperand(r)}, ""
	case "bool1":
		return []cty.Value{boolOperand(r)}, ""
	case "eq":
		if r.Chance(1, 20) {
			a, b := newCapC(r.Intn(3)), newCapC(r.Intn(3))
			if r.Bool() {
				return []cty.Value{cty.ListVal([]cty.Value{a, b}), cty.ListVal([]cty.Value{b, a})}, ""
			}
			return []cty.Value{a, b}, ""
		}
		ty := gen.Type(r, 3, to).Cty()
		vo.SmallNums = r.Bool()
		a := gen.Value(r, ty, vo)
		var b cty.Value
		switch r.Intn(6) {
		case 0:
			b = a
		case 1:
			b = gen.Value(r, gen.Type(r, 2, to).Cty(), vo)
		case 2:
			b = cty.NullVal(ty)
		default:
			b = gen.Value(r, ty, vo)
		}
		return []cty.Value{a, b}, ""
	case "index", "hasindex":
		var coll, key cty.Value
		vo.NoTopNull = !r.Chance(1, 20)
		switch r.Intn(3) {
		case 0:
			coll = gen.Value(r, cty.List(gen.Type(r, 2, to).Cty()), vo)
			key = cty.NumberIntVal(int64(r.Intn(3)))
		case 1:
			coll = gen.Value(r, cty.Map(gen.Type(r, 2, to).Cty()), vo)
			key = cty.StringVal(gen.SimpleKey(r))
		default:
			n := 1 + r.Intn(3)
			ts := make([]cty.Type, n)
			for i := range ts {
				ts[i] = gen.Type(r, 2, to).Cty()
			}
			coll = gen.Value(r, cty.Tuple(ts), vo)
			key = cty.NumberIntVal(int64(r.Intn(n)))
		}
		switch r.Intn(12) {
		case 0:
			key = cty.UnknownVal(key.Type())
		case 1:
			key = cty.DynamicVal
		case 2:
			if op.kind == "hasindex" {
				key = []cty.Value{cty.NumberFloatVal(0.5), cty.NumberIntVal(-1), cty.StringVal("a"), cty.True, cty.NullVal(cty.Number)}[r.Intn(5)]
			}
		}
		return []cty.Value{coll, key}, ""
	case "getattr":
		ot := gen.ObjectType(r, 3, to)
		if len(ot.Attrs) == 0 {
			return nil, ""
		}
		names := ot.AttrNames()
		vo.NoTopNull = true
		return []cty.Value{gen.Value(r, ot.Cty(), vo)}, names[r.Intn(len(names))]
	case "haselement":
		ety := gen.Type(r, 3, gen.TypeOpts{}).Cty()
		vo.SmallNums = true
		vo.NoTopNull = true
		s := gen.Value(r, cty.Set(ety), vo)
		var e cty.Value
		vo.NoTopNull = false
		if s.IsKnown() && s.LengthInt() > 0 && r.Bool() {
			es := s.AsValueSlice()
			e = es[r.Intn(len(es))]
		} else if r.Chance(1, 10) {
			e = gen.Value(r, gen.Type(r, 2, gen.TypeOpts{}).Cty(), vo)
		} else {
			e = gen.Value(r, ety, vo)
		}
		return []cty.Value{s, e}, ""
	case "length":
		ety := gen.Type(r, 2, to).Cty()
		vo.SmallNums = true
		vo.NoTopNull = true
		switch r.Intn(4) {
		case 0:
			return []cty.Value{gen.Value(r, cty.List(ety), vo)}, ""
		case 1:
			return []cty.Value{gen.Value(r, cty.Set(ety), vo)}, ""
		case 2:
			return []cty.Value{gen.Value(r, cty.Map(ety), vo)}, ""
		default:
			return []cty.Value{gen.Value(r, cty.Tuple([]cty.Type{ety, cty.String}), vo)}, ""
		}
	}
	return nil, ""
}

func genOpCase(r *core.Rand) *pair {
	op := ops[r.Intn(len(ops))]
	// HasElement and Equals are the methods whose mark handling goes deeper than one level
	if r.Chance(1, 8) {
		op = opByName([]string{"HasElement", "Equals", "Index", "NotEqual"}[r.Intn(4)])
	}
	u, attr := opOperands(r, op)
	if u == nil {
		return nil
	}
	return opPair(op, attr, u, markInputs(r, u))
}
