package c04

import (
	"fmt"
	"strings"

	"github.com/zclconf/go-cty/cty"
	"github.com/zclconf/go-cty/cty/function"

	"verif/harness/core"
	"verif/harness/gen"
)

var specParamTypes = []cty.Type{
	cty.Number, cty.String, cty.Bool, cty.DynamicPseudoType, cty.DynamicPseudoType,
	cty.List(cty.String), cty.List(cty.DynamicPseudoType), cty.Map(cty.Number), cty.Set(cty.String),
	cty.Object(map[string]cty.Type{"a": cty.String, "b": cty.List(cty.Number)}),
	cty.Tuple([]cty.Type{cty.String, cty.DynamicPseudoType}),
}

// spy records what the callbacks of a generated function saw.
type spy struct {
	implCalls         int
	markedInUnallowed int // a callback received a marked value for a parameter without AllowMarked
}

func genParam(r *core.Rand, name string) function.Parameter {
	return function.Parameter{
		Name:             name,
		Type:             specParamTypes[r.Intn(len(specParamTypes))],
		AllowNull:        r.Chance(1, 3),
		AllowUnknown:     r.Chance(1, 2),
		AllowDynamicType: r.Chance(1, 2),
		AllowMarked:      r.Chance(1, 2),
	}
}

func paramText(p function.Parameter) string {
	s := fmt.Sprintf("%s %#v", p.Name, p.Type)
	for _, f := range []struct {
		on bool
		n  string
	}{{p.AllowNull, "null"}, {p.AllowUnknown, "unk"}, {p.AllowDynamicType, "dyn"}, {p.AllowMarked, "marked"}} {
		if f.on {
			s += "+" + f.n
		}
	}
	return s
}

// genSpecCase builds a function.Spec with random flags and an implementation
// made only of constructors and operation methods (so that an implementation
// that is handed marked values for an AllowMarked parameter propagates them the
// documented way), then an argument list for it.
func genSpecCase(r *core.Rand) *pair {
	np := r.Intn(4)
	params := make([]function.Parameter, np)
	var texts []string
	for i := range params {
		params[i] = genParam(r, fmt.Sprintf("p%d", i))
		texts = append(texts, paramText(params[i]))
	}
	var varParam *function.Parameter
	if r.Bool() || np == 0 {
		vp := genParam(r, "rest")
		varParam = &vp
		texts = append(texts, "..."+paramText(vp))
	}
	sp := &spy{}
	allowed := func(i int) bool {
		if i < len(params) {
			return params[i].AllowMarked
		}
		return varParam != nil && varParam.AllowMarked
	}
	watch := func(args []cty.Value) {
		for i, a := range args {
			if !allowed(i) && a.ContainsMarked() {
				sp.markedInUnallowed++
			}
		}
	}
	behaviour := r.Intn(6)
	bnames := []string{"tuple-of-args", "first-arg", "constant", "equals-first-last", "count", "inspects-values"}
	// digest reads every primitive inside the arguments with integration methods
	// (which panic on marked values). For AllowMarked parameters it unmarks the
	// argument itself and returns the marks, as the documentation requires of a
	// function that opts in.
	digest := func(args []cty.Value) (string, cty.ValueMarks) {
		var sb strings.Builder
		collected := cty.ValueMarks{}
		for i, a := range args {
			if allowed(i) {
				var pm cty.ValueMarks
				a, pm = a.UnmarkDeep()
				for m := range pm {
					collected[m] = struct{}{}
				}
			}
			_ = cty.Walk(a, func(_ cty.Path, v cty.Value) (bool, error) {
				switch {
				case !v.IsKnown():
					_ = v.Range() // panics on a marked value
					sb.WriteString("?")
				case v.IsNull():
					sb.WriteString("~")
				case v.Type() == cty.String:
					sb.WriteString(v.AsString())
				case v.Type() == cty.Number:
					sb.WriteString(v.AsBigFloat().Text('g', 10))
				case v.Type() == cty.Bool:
					if v.True() {
						sb.WriteString("T")
					} else {
						sb.WriteString("F")
					}
				default:
					sb.WriteString(fmt.Sprintf("(%d", v.LengthInt()))
				}
				return true, nil
			})
			sb.WriteString(";")
		}
		return sb.String(), collected
	}
	spec := &function.Spec{Params: params, VarParam: varParam}
	switch behaviour {
	case 0:
		spec.Type = func(args []cty.Value) (cty.Type, error) {
			watch(args)
			ts := make([]cty.Type, len(args))
			for i, a := range args {
				ts[i] = a.Type()
			}
			return cty.Tuple(ts), nil
		}
		spec.Impl = func(args []cty.Value, _ cty.Type) (cty.Value, error) {
			sp.implCalls++
			watch(args)
			return cty.TupleVal(args), nil
		}
	case 1:
		spec.Type = func(args []cty.Value) (cty.Type, error) {
			watch(args)
			if len(args) == 0 {
				return cty.NilType, fmt.Errorf("need an argument")
			}
			return args[0].Type(), nil
		}
		spec.Impl = func(args []cty.Value, _ cty.Type) (cty.Value, error) {
			sp.implCalls++
			watch(args)
			return args[0], nil
		}
	case 2:
		spec.Type = function.StaticReturnType(cty.String)
		spec.Impl = func(args []cty.Value, _ cty.Type) (cty.Value, error) {
			sp.implCalls++
			watch(args)
			return cty.StringVal("ok"), nil
		}
	case 3:
		spec.Type = function.StaticReturnType(cty.Bool)
		spec.Impl = func(args []cty.Value, _ cty.Type) (cty.Value, error) {
			sp.implCalls++
			watch(args)
			if len(args) == 0 {
				return cty.True, nil
			}
			return args[0].Equals(args[len(args)-1]), nil
		}
	case 5:
		spec.Type = func(args []cty.Value) (cty.Type, error) {
			watch(args)
			digest(args) // a Type callback that looks at values, like jsondecode's
			return cty.String, nil
		}
		spec.Impl = func(args []cty.Value, _ cty.Type) (cty.Value, error) {
			sp.implCalls++
			watch(args)
			d, pm := digest(args)
			return cty.StringVal(d).WithMarks(pm), nil
		}
	default:
		spec.Type = function.StaticReturnType(cty.Number)
		spec.Impl = func(args []cty.Value, _ cty.Type) (cty.Value, error) {
			sp.implCalls++
			watch(args)
			return cty.NumberIntVal(int64(len(args))), nil
		}
	}
	if behaviour != 1 && r.Bool() {
		spec.RefineResult = func(b *cty.RefinementBuilder) *cty.RefinementBuilder { return b.NotNull() }
		texts = append(texts, "refine-notnull")
	}
	fn := function.New(spec)

	// arguments
	n := np
	if varParam != nil {
		n += r.Intn(4)
	}
	if r.Chance(1, 30) {
		n = r.Intn(5) // possibly a wrong count
	}
	if n == 0 {
		return nil
	}
	vo := gen.ValueOpts{MaxLen: 3, SmallNums: true, Refined: true}
	u := make([]cty.Value, n)
	for i := range u {
		p, ok := paramFor(fn, i)
		ty := cty.DynamicPseudoType
		if ok {
			ty = p.Type
		}
		o := vo
		if r.Chance(1, 3) {
			o.UnknownPct = 15
		}
		if r.Chance(1, 4) {
			o.NullPct = 10
		}
		switch {
		case r.Chance(1, 25):
			u[i] = gen.Value(r, gen.Type(r, 2, gen.TypeOpts{}).Cty(), o) // probably not conforming
		case ty == cty.DynamicPseudoType:
			u[i] = gen.Value(r, gen.Type(r, 3, gen.TypeOpts{Dynamic: r.Chance(1, 5)}).Cty(), o)
		default:
			u[i] = gen.Value(r, ty, o)
		}
	}
	p := funcPair("function.Call", "spec", bnames[behaviour]+"["+strings.Join(texts, "; ")+"]", fn, u, markInputs(r, u))
	p.extra = func(c *core.Ctx, p *pair) {
		c.Count("spec:behaviour:" + bnames[behaviour])
		if sp.implCalls > 0 {
			c.Count("spec:implementation-was-called")
		} else {
			c.Count("spec:short-circuited")
		}
		if sp.markedInUnallowed > 0 {
			c.CrossNote("C10", "function.Call: a callback received a marked value for a parameter without AllowMarked", p.label)
		}
	}
	return p
}
