package c04

import (
	"fmt"
	"strings"

	"github.com/zclconf/go-cty/cty"
	"github.com/zclconf/go-cty/cty/function"
	"github.com/zclconf/go-cty/cty/function/stdlib"
	ctyjson "github.com/zclconf/go-cty/cty/json"

	"verif/harness/core"
	"verif/harness/gen"
)

// stdFn is one standard-library function with a generator of argument lists on
// which the unmarked call succeeds most of the time.
type stdFn struct {
	name string
	fn   function.Function
	args func(g *ag) []cty.Value
}

// ag is the argument-generator context.
type ag struct{ r *core.Rand }

func (g *ag) known() gen.ValueOpts { return gen.ValueOpts{MaxLen: 3, SmallNums: true} }

func (g *ag) num() cty.Value {
	switch g.r.Intn(10) {
	case 0:
		return cty.NumberFloatVal(0.5)
	case 1:
		return cty.NumberFloatVal(-2.5)
	case 2:
		return cty.NumberIntVal(int64(-1 - g.r.Intn(5)))
	case 3:
		return gen.Number(g.r).V
	}
	return cty.NumberIntVal(int64(g.r.Intn(12)))
}
func (g *ag) nat(max int) cty.Value { return cty.NumberIntVal(int64(g.r.Intn(max + 1))) }
func (g *ag) pos() cty.Value {
	if g.r.Chance(1, 4) {
		return cty.NumberFloatVal(float64(1+g.r.Intn(40)) / 4)
	}
	return cty.NumberIntVal(int64(1 + g.r.Intn(20)))
}
func (g *ag) boolean() cty.Value { return cty.BoolVal(g.r.Bool()) }

var wordPool = []string{"hello", "Hello World", "  padded  ", "a,b,c", "x-y-z", "foo bar baz", "line1\nline2\n", "é", "👍🏽 ok", "abcabc", "", "a", "true", "12", "1e3", "ff", "-7"}

func (g *ag) str() cty.Value {
	if g.r.Chance(1, 3) {
		return cty.StringVal(gen.SmallString(g.r))
	}
	if g.r.Chance(1, 8) {
		return cty.StringVal(gen.String(g.r, 6))
	}
	return cty.StringVal(wordPool[g.r.Intn(len(wordPool))])
}
func (g *ag) pick(ss ...string) cty.Value { return cty.StringVal(ss[g.r.Intn(len(ss))]) }

func (g *ag) ty(depth int) cty.Type         { return gen.Type(g.r, depth, gen.TypeOpts{}).Cty() }
func (g *ag) val(ty cty.Type) cty.Value     { return gen.Value(g.r, ty, g.known()) }
func (g *ag) anyVal(depth int) cty.Value    { return g.val(g.ty(depth)) }
func (g *ag) listOf(ety cty.Type) cty.Value { return g.val(cty.List(ety)) }
func (g *ag) nonEmptyList(ety cty.Type) cty.Value {
	n := 1 + g.r.Intn(3)
	es := make([]cty.Value, n)
	for i := range es {
		es[i] = g.val(ety)
	}
	return cty.ListVal(es)
}
func (g *ag) strList() cty.Value {
	n := g.r.Intn(4)
	if n == 0 {
		return cty.ListValEmpty(cty.String)
	}
	es := make([]cty.Value, n)
	for i := range es {
		es[i] = g.str()
	}
	return cty.ListVal(es)
}
func (g *ag) tupleOf(n int) cty.Value {
	es := make([]cty.Value, n)
	for i := range es {
		es[i] = g.anyVal(2)
	}
	return cty.TupleVal(es)
}

// seq draws a list, tuple or (if sets) set.
func (g *ag) seq(ety cty.Type, sets bool) cty.Value {
	k := g.r.Intn(3)
	if !sets && k == 2 {
		k = g.r.Intn(2)
	}
	switch k {
	case 0:
		return g.listOf(ety)
	case 1:
		n := g.r.Intn(4)
		es := make([]cty.Value, n)
		for i := range es {
			if g.r.Chance(1, 4) {
				es[i] = g.anyVal(2)
			} else {
				es[i] = g.val(ety)
			}
		}
		return cty.TupleVal(es)
	}
	return g.val(cty.Set(ety))
}
func (g *ag) mapOrObj(ety cty.Type) cty.Value {
	if g.r.Bool() {
		return g.val(cty.Map(ety))
	}
	ot := gen.ObjectType(g.r, 2, gen.TypeOpts{})
	return g.val(ot.Cty())
}
func (g *ag) bytesVal() cty.Value {
	n := g.r.Intn(6)
	b := make([]byte, n)
	for i := range b {
		b[i] = byte(g.r.Intn(256))
	}
	return stdlib.BytesVal(b)
}

var timestamps = []string{"2006-01-02T15:04:05Z", "2020-02-29T23:59:59+05:30", "1999-12-31T00:00:00-08:00", "2024-07-04T12:00:00.5Z"}
var dateFormats = []string{"YYYY-MM-DD", "DD MMM YYYY hh:mm ZZZ", "EEEE, MMMM D, YYYY", "h:mm:ss aa", "'year' YYYY", "YY M D H m s ZZZZ", "EEE MMM DD", "ZZZZZ"}
var durations = []string{"1h", "-30m", "24h30m", "1.5s", "0s", "100ms"}
var regexes = []string{"[a-z]+", "(\\d+)", "(?P<word>[a-z]+)-(?P<n>\\d*)", "a|b", "^h(.)l", "\\s+", "(a)(b)?", "."}
var csvDocs = []string{"a,b\n1,2\n3,4\n", "name\nx\n", "a,b,c\n\"q,1\",2,3\n", "k\n"}
var jsonDocs = []string{`{"a":1,"b":[true,null,"x"]}`, `[1,2,3]`, `"str"`, `null`, `{"k":{"n":1.5}}`, `true`, `[]`, `{}`, `[{"a":"x"},{"a":"y"}]`}

// fmtArgs draws a format string and matching arguments.
func (g *ag) fmtArgs(list bool) []cty.Value {
	n := g.r.Intn(4)
	var sb strings.Builder
	var args []cty.Value
	sb.WriteString([]string{"", "v=", "%% ", "x"}[g.r.Intn(4)])
	for i := 0; i < n; i++ {
		var a cty.Value
		verb := ""
		switch g.r.Intn(9) {
		case 0:
			verb, a = "%d", cty.NumberIntVal(int64(g.r.Intn(200)-100))
		case 1:
			verb, a = []string{"%f", "%.2f", "%e", "%g", "%5.1f"}[g.r.Intn(5)], g.num()
		case 2:
			verb, a = []string{"%s", "%q", "%10s", "%-6s", "%.2s"}[g.r.Intn(5)], g.str()
		case 3:
			verb, a = "%t", g.boolean()
		case 4:
			verb, a = []string{"%x", "%X", "%o", "%b", "%+d", "%05d"}[g.r.Intn(6)], cty.NumberIntVal(int64(g.r.Intn(300)))
		case 5:
			verb, a = "%v", g.anyVal(3)
		case 6:
			verb, a = "%#v", g.anyVal(2)
		case 7:
			verb, a = "%v", cty.NullVal(cty.String)
		default:
			verb, a = "%s", g.num()
		}
		if list && g.r.Chance(1, 2) {
			// sequences are iterated by formatlist: all must share one length
			if g.r.Bool() {
				a = cty.ListVal([]cty.Value{a, a})
			} else {
				a = cty.TupleVal([]cty.Value{a, a})
			}
		}
		sb.WriteString(verb)
		sb.WriteString([]string{" ", "-", "", ", "}[g.r.Intn(4)])
		args = append(args, a)
	}
	return append([]cty.Value{cty.StringVal(sb.String())}, args...)
}

func (g *ag) sameTypeVals(n int, depth int) []cty.Value {
	ty := g.ty(depth)
	out := make([]cty.Value, n)
	for i := range out {
		out[i] = g.val(ty)
	}
	return out
}

func (g *ag) sets(n int) []cty.Value {
	ety := g.ty(2)
	out := make([]cty.Value, n)
	for i := range out {
		out[i] = g.val(cty.Set(ety))
	}
	return out
}

func nums(g *ag, n int) []cty.Value {
	out := make([]cty.Value, n)
	for i := range out {
		out[i] = g.num()
	}
	return out
}

func one(f func(g *ag) cty.Value) func(g *ag) []cty.Value {
	return func(g *ag) []cty.Value { return []cty.Value{f(g)} }
}

var stdFns []stdFn

func init() {
	num1 := one((*ag).num)
	num2 := func(g *ag) []cty.Value { return nums(g, 2) }
	str1 := one((*ag).str)
	str2 := func(g *ag) []cty.Value { return []cty.Value{g.str(), g.str()} }
	bool2 := func(g *ag) []cty.Value { return []cty.Value{g.boolean(), g.boolean()} }
	varnums := func(g *ag) []cty.Value { return nums(g, 1+g.r.Intn(4)) }
	setsN := func(g *ag) []cty.Value { return g.sets(1 + g.r.Intn(3)) }
	sets2 := func(g *ag) []cty.Value { return g.sets(2) }
	collKey := func(g *ag) []cty.Value {
		switch g.r.Intn(3) {
		case 0:
			return []cty.Value{g.nonEmptyList(g.ty(2)), g.nat(2)}
		case 1:
			return []cty.Value{g.val(cty.Map(g.ty(2))), cty.StringVal(gen.SimpleKey(g.r))}
		}
		n := 1 + g.r.Intn(3)
		return []cty.Value{g.tupleOf(n), g.nat(n - 1)}
	}
	add := func(name string, fn function.Function, args func(g *ag) []cty.Value) {
		stdFns = append(stdFns, stdFn{name, fn, args})
	}

	// number
	add("abs", stdlib.AbsoluteFunc, num1)
	add("add", stdlib.AddFunc, num2)
	add("subtract", stdlib.SubtractFunc, num2)
	add("multiply", stdlib.MultiplyFunc, num2)
	add("divide", stdlib.DivideFunc, func(g *ag) []cty.Value { return []cty.Value{g.num(), g.pos()} })
	add("modulo", stdlib.ModuloFunc, func(g *ag) []cty.Value { return []cty.Value{g.num(), g.pos()} })
	add("greaterthan", stdlib.GreaterThanFunc, num2)
	add("greaterthanorequalto", stdlib.GreaterThanOrEqualToFunc, num2)
	add("lessthan", stdlib.LessThanFunc, num2)
	add("lessthanorequalto", stdlib.LessThanOrEqualToFunc, num2)
	add("negate", stdlib.NegateFunc, num1)
	add("min", stdlib.MinFunc, varnums)
	add("max", stdlib.MaxFunc, varnums)
	add("int", stdlib.IntFunc, num1)
	add("ceil", stdlib.CeilFunc, num1)
	add("floor", stdlib.FloorFunc, num1)
	add("log", stdlib.LogFunc, func(g *ag) []cty.Value { return []cty.Value{g.pos(), cty.NumberIntVal(int64(2 + g.r.Intn(9)))} })
	add("pow", stdlib.PowFunc, func(g *ag) []cty.Value { return []cty.Value{g.pos(), g.nat(4)} })
	add("signum", stdlib.SignumFunc, func(g *ag) []cty.Value { return []cty.Value{cty.NumberIntVal(int64(g.r.Intn(7) - 3))} })
	add("parseint", stdlib.ParseIntFunc, func(g *ag) []cty.Value {
		switch g.r.Intn(4) {
		case 0:
			return []cty.Value{g.pick("ff", "7f", "-a", "10"), cty.NumberIntVal(16)}
		case 1:
			return []cty.Value{g.pick("101", "-11", "0"), cty.NumberIntVal(2)}
		case 2:
			return []cty.Value{g.pick("zz", "10", "Az"), cty.NumberIntVal(int64(36 + g.r.Intn(27)))}
		}
		return []cty.Value{g.pick("12", "-7", "007", "123456789012345678901234567890"), cty.NumberIntVal(10)}
	})
	// bool
	add("not", stdlib.NotFunc, one((*ag).boolean))
	add("and", stdlib.AndFunc, bool2)
	add("or", stdlib.OrFunc, bool2)
	// bytes
	add("byteslen", stdlib.BytesLenFunc, one((*ag).bytesVal))
	add("bytesslice", stdlib.BytesSliceFunc, func(g *ag) []cty.Value {
		b := g.bytesVal()
		n := len(*(b.EncapsulatedValue().(*[]byte)))
		off := g.r.Intn(n + 1)
		return []cty.Value{b, cty.NumberIntVal(int64(off)), cty.NumberIntVal(int64(g.r.Intn(n - off + 1)))}
	})
	// string
	add("upper", stdlib.UpperFunc, str1)
	add("lower", stdlib.LowerFunc, str1)
	add("reverse", stdlib.ReverseFunc, str1)
	add("strlen", stdlib.StrlenFunc, str1)
	add("chomp", stdlib.ChompFunc, str1)
	add("title", stdlib.TitleFunc, str1)
	add("trimspace", stdlib.TrimSpaceFunc, str1)
	add("trim", stdlib.TrimFunc, str2)
	add("trimprefix", stdlib.TrimPrefixFunc, str2)
	add("trimsuffix", stdlib.TrimSuffixFunc, str2)
	add("substr", stdlib.SubstrFunc, func(g *ag) []cty.Value {
		return []cty.Value{g.str(), cty.NumberIntVal(int64(g.r.Intn(4))), cty.NumberIntVal(int64(g.r.Intn(5) - 1))}
	})
	add("indent", stdlib.IndentFunc, func(g *ag) []cty.Value { return []cty.Value{g.nat(4), g.str()} })
	add("join", stdlib.JoinFunc, func(g *ag) []cty.Value {
		out := []cty.Value{g.pick(",", "", "-", ", ")}
		for i := g.r.Intn(3); i >= 0; i-- {
			out = append(out, g.strList())
		}
		return out
	})
	add("split", stdlib.SplitFunc, func(g *ag) []cty.Value { return []cty.Value{g.pick(",", " ", "-", "", "b"), g.str()} })
	add("sort", stdlib.SortFunc, one((*ag).strList))
	add("replace", stdlib.ReplaceFunc, func(g *ag) []cty.Value { return []cty.Value{g.str(), g.pick("a", "l", " ", "", "abc"), g.str()} })
	add("regex", stdlib.RegexFunc, func(g *ag) []cty.Value {
		return []cty.Value{cty.StringVal(regexes[g.r.Intn(len(regexes))]), g.pick("hello", "abc-123", "a b  c", "hal 9000", "ab")}
	})
	add("regexall", stdlib.RegexAllFunc, func(g *ag) []cty.Value {
		return []cty.Value{cty.StringVal(regexes[g.r.Intn(len(regexes))]), g.str()}
	})
	add("regexreplace", stdlib.RegexReplaceFunc, func(g *ag) []cty.Value {
		return []cty.Value{g.str(), cty.StringVal(regexes[g.r.Intn(len(regexes))]), g.pick("", "X", "$1", "<$0>")}
	})
	add("format", stdlib.FormatFunc, func(g *ag) []cty.Value { return g.fmtArgs(false) })
	add("formatlist", stdlib.FormatListFunc, func(g *ag) []cty.Value { return g.fmtArgs(true) })
	add("formatdate", stdlib.FormatDateFunc, func(g *ag) []cty.Value {
		return []cty.Value{cty.StringVal(dateFormats[g.r.Intn(len(dateFormats))]), cty.StringVal(timestamps[g.r.Intn(len(timestamps))])}
	})
	add("timeadd", stdlib.TimeAddFunc, func(g *ag) []cty.Value {
		return []cty.Value{cty.StringVal(timestamps[g.r.Intn(len(timestamps))]), cty.StringVal(durations[g.r.Intn(len(durations))])}
	})
	// encoding
	add("jsonencode", stdlib.JSONEncodeFunc, func(g *ag) []cty.Value { return []cty.Value{g.anyVal(3)} })
	add("jsondecode", stdlib.JSONDecodeFunc, func(g *ag) []cty.Value {
		if g.r.Bool() {
			v := g.anyVal(3)
			if b, err := ctyjson.Marshal(v, v.Type()); err == nil {
				return []cty.Value{cty.StringVal(string(b))}
			}
		}
		return []cty.Value{cty.StringVal(jsonDocs[g.r.Intn(len(jsonDocs))])}
	})
	add("csvdecode", stdlib.CSVDecodeFunc, func(g *ag) []cty.Value { return []cty.Value{cty.StringVal(csvDocs[g.r.Intn(len(csvDocs))])} })
	// general
	add("equal", stdlib.EqualFunc, func(g *ag) []cty.Value {
		a := g.sameTypeVals(2, 3)
		if g.r.Chance(1, 3) {
			a[1] = a[0]
		}
		return a
	})
	add("notequal", stdlib.NotEqualFunc, func(g *ag) []cty.Value {
		a := g.sameTypeVals(2, 3)
		if g.r.Chance(1, 3) {
			a[1] = a[0]
		}
		return a
	})
	add("coalesce", stdlib.CoalesceFunc, func(g *ag) []cty.Value {
		a := g.sameTypeVals(1+g.r.Intn(3), 2)
		if g.r.Bool() {
			a[0] = cty.NullVal(a[0].Type())
		}
		return a
	})
	add("assertnotnull", stdlib.AssertNotNullFunc, func(g *ag) []cty.Value { return []cty.Value{g.anyVal(3)} })
	for _, t := range []cty.Type{cty.String, cty.Number, cty.Bool, cty.List(cty.String), cty.Set(cty.String), cty.Map(cty.String),
		cty.List(cty.DynamicPseudoType), cty.Set(cty.DynamicPseudoType), cty.Map(cty.DynamicPseudoType), cty.DynamicPseudoType} {
		t := t
		add(fmt.Sprintf("to(%s)", t.FriendlyNameForConstraint()), stdlib.MakeToFunc(t), func(g *ag) []cty.Value {
			switch {
			case t.IsPrimitiveType():
				return []cty.Value{[]cty.Value{g.num(), g.boolean(), g.pick("true", "12", "1.5", "x"), cty.NullVal(cty.String)}[g.r.Intn(4)]}
			case t.IsMapType():
				if g.r.Bool() {
					return []cty.Value{g.mapOrObj(g.ty(1))}
				}
			case t.IsListType() || t.IsSetType():
				if g.r.Chance(2, 3) {
					return []cty.Value{g.seq(g.ty(1), true)}
				}
			}
			return []cty.Value{g.anyVal(3)}
		})
	}
	// collection
	add("hasindex", stdlib.HasIndexFunc, collKey)
	add("index", stdlib.IndexFunc, collKey)
	add("length", stdlib.LengthFunc, func(g *ag) []cty.Value {
		if g.r.Chance(1, 4) {
			return []cty.Value{g.val(cty.Map(g.ty(2)))}
		}
		return []cty.Value{g.seq(g.ty(2), true)}
	})
	add("element", stdlib.ElementFunc, func(g *ag) []cty.Value {
		if g.r.Bool() {
			return []cty.Value{g.nonEmptyList(g.ty(2)), g.nat(7)}
		}
		return []cty.Value{g.tupleOf(1 + g.r.Intn(3)), g.nat(7)}
	})
	add("coalescelist", stdlib.CoalesceListFunc, func(g *ag) []cty.Value {
		ety := g.ty(2)
		n := 1 + g.r.Intn(3)
		out := make([]cty.Value, n)
		for i := range out {
			out[i] = g.seq(ety, false)
		}
		out[n-1] = g.nonEmptyList(ety)
		return out
	})
	add("compact", stdlib.CompactFunc, one((*ag).strList))
	add("contains", stdlib.ContainsFunc, func(g *ag) []cty.Value {
		ety := g.ty(2)
		s := g.seq(ety, true)
		if s.LengthInt() > 0 && !s.Type().IsTupleType() && g.r.Bool() {
			es := s.AsValueSlice()
			return []cty.Value{s, es[g.r.Intn(len(es))]}
		}
		return []cty.Value{s, g.val(ety)}
	})
	add("distinct", stdlib.DistinctFunc, func(g *ag) []cty.Value { return []cty.Value{g.listOf(g.ty(2))} })
	add("chunklist", stdlib.ChunklistFunc, func(g *ag) []cty.Value { return []cty.Value{g.listOf(g.ty(2)), g.nat(3)} })
	add("flatten", stdlib.FlattenFunc, func(g *ag) []cty.Value {
		ety := g.ty(1)
		switch g.r.Intn(4) {
		case 0:
			return []cty.Value{g.listOf(cty.List(ety))}
		case 1:
			return []cty.Value{cty.TupleVal([]cty.Value{g.listOf(ety), g.val(ety), g.seq(ety, true)})}
		case 2:
			return []cty.Value{g.val(cty.Set(cty.List(ety)))}
		}
		return []cty.Value{g.seq(cty.List(ety), true)}
	})
	add("keys", stdlib.KeysFunc, func(g *ag) []cty.Value { return []cty.Value{g.mapOrObj(g.ty(2))} })
	add("values", stdlib.ValuesFunc, func(g *ag) []cty.Value { return []cty.Value{g.mapOrObj(g.ty(2))} })
	add("lookup", stdlib.LookupFunc, func(g *ag) []cty.Value {
		ety := g.ty(2)
		if g.r.Bool() {
			return []cty.Value{g.val(cty.Map(ety)), cty.StringVal(gen.SimpleKey(g.r)), g.val(ety)}
		}
		return []cty.Value{g.val(gen.ObjectType(g.r, 2, gen.TypeOpts{}).Cty()), g.pick("a", "b", "c", "k"), g.anyVal(2)}
	})
	add("merge", stdlib.MergeFunc, func(g *ag) []cty.Value {
		n := 1 + g.r.Intn(3)
		out := make([]cty.Value, n)
		ety := g.ty(2)
		allMaps := g.r.Bool()
		for i := range out {
			switch {
			case g.r.Chance(1, 10):
				out[i] = cty.NullVal(cty.Map(ety))
			case allMaps:
				out[i] = g.val(cty.Map(ety))
			default:
				out[i] = g.mapOrObj(ety)
			}
		}
		return out
	})
	add("reverselist", stdlib.ReverseListFunc, func(g *ag) []cty.Value { return []cty.Value{g.seq(g.ty(2), true)} })
	add("setproduct", stdlib.SetProductFunc, func(g *ag) []cty.Value {
		n := 1 + g.r.Intn(3)
		out := make([]cty.Value, n)
		kind := g.r.Intn(3)
		for i := range out {
			ety := g.ty(1)
			switch kind {
			case 0:
				out[i] = g.val(cty.Set(ety))
			case 1:
				out[i] = g.listOf(ety)
			default:
				out[i] = g.seq(ety, true)
			}
			if g.r.Chance(1, 4) && !out[i].Type().IsTupleType() {
				// an argument of unknown length with a length upper bound: setproduct multiplies the bounds and
				// changes its answer when a bound or the product passes a limit (1024 per argument, 2048 in all)
				b := []int{0, 1, 2, 3, 48, 64, 683, 900, 1024, 1025, 3000}[g.r.Intn(11)]
				rb := cty.UnknownVal(out[i].Type()).Refine().CollectionLengthUpperBound(b)
				if g.r.Bool() {
					rb = rb.NotNull()
				}
				out[i] = rb.NewValue()
			}
		}
		return out
	})
	add("slice", stdlib.SliceFunc, func(g *ag) []cty.Value {
		var s cty.Value
		if g.r.Bool() {
			s = g.listOf(g.ty(2))
		} else {
			s = g.tupleOf(g.r.Intn(4))
		}
		n := s.LengthInt()
		lo := g.r.Intn(n + 1)
		return []cty.Value{s, cty.NumberIntVal(int64(lo)), cty.NumberIntVal(int64(lo + g.r.Intn(n-lo+1)))}
	})
	add("zipmap", stdlib.ZipmapFunc, func(g *ag) []cty.Value {
		n := g.r.Intn(4)
		ks := make([]cty.Value, n)
		for i := range ks {
			ks[i] = cty.StringVal(gen.SimpleKey(g.r))
		}
		keys := cty.ListValEmpty(cty.String)
		if n > 0 {
			keys = cty.ListVal(ks)
		}
		if g.r.Bool() {
			return []cty.Value{keys, g.tupleOf(n)}
		}
		ety := g.ty(2)
		vs := make([]cty.Value, n)
		for i := range vs {
			vs[i] = g.val(ety)
		}
		if n == 0 {
			return []cty.Value{keys, cty.ListValEmpty(ety)}
		}
		return []cty.Value{keys, cty.ListVal(vs)}
	})
	// sequence
	add("concat", stdlib.ConcatFunc, func(g *ag) []cty.Value {
		n := 1 + g.r.Intn(3)
		out := make([]cty.Value, n)
		ety := g.ty(2)
		lists := g.r.Bool()
		for i := range out {
			if lists {
				out[i] = g.listOf(ety)
			} else {
				out[i] = g.seq(ety, false)
			}
		}
		return out
	})
	add("range", stdlib.RangeFunc, func(g *ag) []cty.Value {
		switch g.r.Intn(3) {
		case 0:
			return []cty.Value{g.nat(5)}
		case 1:
			return []cty.Value{g.nat(3), cty.NumberIntVal(int64(3 + g.r.Intn(4)))}
		}
		return []cty.Value{g.nat(3), cty.NumberIntVal(int64(3 + g.r.Intn(4))), g.pick2(cty.NumberIntVal(1), cty.NumberIntVal(2), cty.NumberFloatVal(0.5))}
	})
	// set
	add("sethaselement", stdlib.SetHasElementFunc, func(g *ag) []cty.Value {
		ety := g.ty(2)
		s := g.val(cty.Set(ety))
		if s.LengthInt() > 0 && g.r.Bool() {
			es := s.AsValueSlice()
			return []cty.Value{s, es[g.r.Intn(len(es))]}
		}
		return []cty.Value{s, g.val(ety)}
	})
	add("setunion", stdlib.SetUnionFunc, setsN)
	add("setintersection", stdlib.SetIntersectionFunc, setsN)
	add("setsubtract", stdlib.SetSubtractFunc, sets2)
	add("setsymmetricdifference", stdlib.SetSymmetricDifferenceFunc, setsN)
}

func (g *ag) pick2(vs ...cty.Value) cty.Value { return vs[g.r.Intn(len(vs))] }

// paramFor returns the parameter that governs argument i.
func paramFor(fn function.Function, i int) (function.Parameter, bool) {
	ps := fn.Params()
	if i < len(ps) {
		return ps[i], true
	}
	if vp := fn.VarParam(); vp != nil {
		return *vp, true
	}
	return function.Parameter{}, false
}

func funcPair(site, family, label string, fn function.Function, u, m []cty.Value) *pair {
	prom := make([]string, len(u))
	names := make([]string, len(u))
	for i := range u {
		p, ok := paramFor(fn, i)
		names[i] = "argument"
		if ok {
			names[i] = "parameter " + p.Name
			if !p.AllowMarked {
				prom[i] = "deep"
			} else {
				names[i] += " (AllowMarked)"
			}
		}
	}
	return &pair{
		site: site, family: family, label: label, unmarked: u, marked: m,
		call:     func(a []cty.Value) (cty.Value, error) { return fn.Call(a) },
		promised: prom, pname: names,
	}
}

// perturb replaces parts of the argument list by unknown or null values (the
// unmarked call may then fail or short-circuit; both runs are still compared).
func perturb(r *core.Rand, args []cty.Value) []cty.Value {
	out := make([]cty.Value, len(args))
	copy(out, args)
	if len(out) == 0 {
		return out
	}
	switch r.Intn(10) {
	case 0, 1: // one argument wholly unknown
		k := r.Intn(len(out))
		if out[k].Type().IsCapsuleType() {
			out[k] = cty.UnknownVal(out[k].Type())
		} else {
			out[k], _ = gen.Weaken(r, out[k], gen.WeakenOpts{ForceTop: true, Refined: r.Bool(), Dynamic: r.Chance(1, 3)})
		}
	case 2, 3: // nested unknowns
		for k := range out {
			if !out[k].Type().IsCapsuleType() {
				out[k], _ = gen.Weaken(r, out[k], gen.WeakenOpts{Pct: 15, Refined: r.Bool()})
			}
		}
	case 4: // a null argument
		k := r.Intn(len(out))
		out[k] = cty.NullVal(out[k].Type())
	}
	return out
}

func genStdlibCase(r *core.Rand) *pair {
	f := stdFns[r.Intn(len(stdFns))]
	g := &ag{r: r}
	var u []cty.Value
	guard := core.Guard(func() { u = f.args(g) })
	if guard.Panicked {
		panic(fmt.Sprintf("argument generator of %s panicked: %s", f.name, guard.PanicMsg))
	}
	u = perturb(r, u)
	if len(u) == 0 {
		return nil
	}
	return funcPair("stdlib."+f.name, "stdlib", "", f.fn, u, markInputs(r, u))
}
