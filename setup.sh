#!/bin/sh
# setup_cmd: toolchain sanity + warm build cache (normal and -race). Offline.
set -u
ROOT="$(cd "$(dirname "$0")" && pwd)"
export GOFLAGS=-mod=mod GOPROXY=off GOSUMDB=off GOTOOLCHAIN=local
mkdir -p "$ROOT/.build" "$ROOT/evidence"
cd "$ROOT/harness" || exit 1
[ -f go.sum ] || cp /repo/go.sum ./go.sum
go version || exit 1
go build -tags verif -o "$ROOT/.build/vcheck" ./cmd/vcheck || exit 1
go build -race -tags verif -o "$ROOT/.build/vcheck-race" ./cmd/vcheck || exit 1
"$ROOT/.build/vcheck" -list
echo "setup ok"
