#!/bin/sh
# seedbatch.sh <CNN> <driver list> <dest rel path> <pkg> <run regex|-> [ks]
P="$1"; D="$2"; DEST="$3"; PKG="$4"; RUN="$5"; KS="${6:-1 2 3}"
for k in $KS; do
  dest=$(echo "$DEST" | sed "s/%K/$k/g")
  if [ "$RUN" = "-" ]; then
    python3 /verif/tools/seedtest.py /var/tmp/seed-$P-out/$k "$D" "$dest" "$PKG"
  else
    python3 /verif/tools/seedtest.py /var/tmp/seed-$P-out/$k "$D" "$dest" "$PKG" -run "$(echo "$RUN" | sed "s/%K/$k/g")"
  fi | grep -v "^WARNING conda" > /var/tmp/seed-$P-out/$k/RESULT.json
  python3 /verif/tools/seedfmt.py < /var/tmp/seed-$P-out/$k/RESULT.json
done
