#!/bin/sh
# applyfix.sh <slug>  — apply /var/tmp/fixes/<slug>.patch to /repo, run the baseline with the guard off,
# commit with /var/tmp/fixes/<slug>.msg. Leaves /repo untouched if anything fails.
set -u
export GOFLAGS=-mod=mod GOPROXY=off GOSUMDB=off GOTOOLCHAIN=local
S="$1"; P=/var/tmp/fixes/$S.patch; M=/var/tmp/fixes/$S.msg
[ -f "$P" ] && [ -f "$M" ] || { echo "missing $P or $M"; exit 2; }
head -1 "$M" | grep -q '^fix: ' || { echo "message does not start with fix:"; exit 2; }
cd /repo || exit 2
[ -z "$(git status --porcelain)" ] || { echo "/repo dirty"; exit 2; }
git apply --check "$P" 2>/dev/null || { echo "patch does not apply cleanly; trying 3way"; git apply --3way "$P" || { git checkout -q -- .; exit 3; }; }
git apply "$P" 2>/dev/null
git diff --stat | tail -3
if git diff --name-only | grep -q '_test.go'; then echo "patch touches tests"; git checkout -q -- .; exit 4; fi
if ! go build ./... ; then echo BUILD FAIL; git checkout -q -- .; exit 5; fi
if ! go test -vet=off -count=1 ./... > /var/tmp/fixes/$S.testlog 2>&1; then echo "BASELINE FAILS"; tail -30 /var/tmp/fixes/$S.testlog; git checkout -q -- .; exit 6; fi
git add -A && git commit -q -F "$M" && git log --oneline -1
mkdir -p /var/tmp/fixes/applied && mv "$P" "$M" /var/tmp/fixes/applied/
