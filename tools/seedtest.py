#!/usr/bin/env python3
"""seedtest.py <seed dir holding patch.diff + demo> <cNN[,cMM...]> <demo dest path relative to repo root> <go test package> [extra go test args...]
Confirms a seeded change in a scratch worktree of /repo (HEAD): applies, builds, full suite passes, demo fails with /
passes without; then runs the named quick checks against the patched worktree (VERIF_REPO) and reports caught/missed."""
import os, subprocess, sys, shutil, json, time
sd, drivers, dest, pkg = sys.argv[1], sys.argv[2].split(","), sys.argv[3], sys.argv[4]
extra = sys.argv[5:]
wt = "/var/tmp/seedcheck-wt-%d" % os.getpid()
env = dict(os.environ, GOFLAGS="-mod=mod", GOPROXY="off", GOSUMDB="off", GOTOOLCHAIN="local")
def sh(cmd, cwd=None, e=env, timeout=3600):
    return subprocess.run(cmd, cwd=cwd, env=e, capture_output=True, text=True, errors="replace", timeout=timeout)
sh(["git", "-C", "/repo", "worktree", "add", "-q", "--detach", wt, "HEAD"])
res = {"dir": sd}
try:
    demo = [f for f in os.listdir(sd) if f.startswith("demo")]
    assert demo, "no demo file"
    demo_src = os.path.join(sd, demo[0])
    r = sh(["git", "apply", os.path.join(sd, "patch.diff")], cwd=wt)
    res["applies"] = r.returncode == 0
    if r.returncode != 0:
        r = sh(["git", "apply", "--3way", os.path.join(sd, "patch.diff")], cwd=wt)
        res["applies_3way"] = r.returncode == 0
        if r.returncode != 0:
            print(json.dumps(res)); print(r.stderr[:500]); raise SystemExit(1)
    r = sh(["go", "build", "./..."], cwd=wt); res["builds"] = r.returncode == 0
    r = sh(["go", "test", "-vet=off", "-count=1", "./..."], cwd=wt); res["suite_passes_with_change"] = r.returncode == 0
    if r.returncode != 0: res["suite_out"] = r.stdout[-800:]
    os.makedirs(os.path.dirname(os.path.join(wt, dest)), exist_ok=True)
    shutil.copy(demo_src, os.path.join(wt, dest))
    r = sh(["go", "test", "-vet=off", "-count=1"] + extra + [pkg], cwd=wt); res["demo_fails_with_change"] = r.returncode != 0
    res["demo_out_with"] = (r.stdout + r.stderr)[-600:]
    os.remove(os.path.join(wt, dest))
    # checks against the patched tree
    for d in drivers:
        t0 = time.time()
        r = sh(["/verif/dev.sh", d, "quick"], e=dict(env, VERIF_REPO=wt))
        sigs = [l.strip()[11:] for l in r.stdout.splitlines() if l.strip().startswith("signature:")]
        res["check_" + d] = {"fired": r.returncode == 1 and "VIOLATION property=" in r.stdout, "exit": r.returncode, "wall_s": round(time.time() - t0), "signatures": sigs[:6]}
    sh(["git", "checkout", "-q", "--", "."], cwd=wt)
    shutil.copy(demo_src, os.path.join(wt, dest))
    r = sh(["go", "test", "-vet=off", "-count=1"] + extra + [pkg], cwd=wt); res["demo_passes_without_change"] = r.returncode == 0
    if r.returncode != 0: res["demo_out_without"] = (r.stdout + r.stderr)[-600:]
    os.remove(os.path.join(wt, dest))
finally:
    sh(["git", "-C", "/repo", "worktree", "remove", "--force", wt])
print(json.dumps(res, indent=1))
