#!/bin/sh
# thorough_some.sh <seed> <Cxx>... : run the thorough tier of the named checks one after the other; summary lines like allchecks.sh
HERE="$(cd "$(dirname "$0")/.." && pwd)"
SEED="$1"; shift
mkdir -p "$HERE/.build/logs"
for P in "$@"; do
  t0=$(date +%s)
  VERIF_SEED=$SEED "$HERE/check.sh" $P thorough > "$HERE/.build/logs/$P-thorough-s$SEED.log" 2>&1; rc=$?
  t1=$(date +%s)
  echo "$P thorough seed=$SEED rc=$rc $((t1-t0))s :: $(grep -c '^VIOLATION' "$HERE/.build/logs/$P-thorough-s$SEED.log") violations, $(grep -c '^KNOWN-FINDING' "$HERE/.build/logs/$P-thorough-s$SEED.log") known, $(grep -c '^INCONCLUSIVE' "$HERE/.build/logs/$P-thorough-s$SEED.log") inconclusive"
  [ $rc -ne 0 ] && grep -A3 '^VIOLATION\|OBSERVED-NOTHING\|BUILD-FAILED' "$HERE/.build/logs/$P-thorough-s$SEED.log" | cut -c1-600 | head -40
done
