import sys, json
d = json.load(sys.stdin)
ok = all(d.get(k) for k in ("applies", "builds", "suite_passes_with_change", "demo_fails_with_change", "demo_passes_without_change"))
chk = {k: v for k, v in d.items() if k.startswith("check_")}
parts = []
for k, v in chk.items():
    parts.append("%s=%s(%ss) %s" % (k, "CAUGHT" if v["fired"] else "MISSED", v["wall_s"], v["signatures"][:2]))
bad = "" if ok else " INVALID " + json.dumps({k: v for k, v in d.items() if not k.startswith("check_") and k != "demo_out_with"})
print(d["dir"], "VALID" if ok else bad, " ".join(parts))
