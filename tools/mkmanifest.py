#!/usr/bin/env python3
"""Regenerates /verif/MANIFEST.json from the table below (kept in one place so
the manifest stays valid while properties are added)."""
import json, os, subprocess
ROOT = os.path.dirname(os.path.dirname(os.path.abspath(__file__)))

# id -> (technique, level text, level note, design ref)
CLAIMED = {
 "C01": ("paired abstract/concrete executions + admits-relation monitor",
         "Every operation method is executed twice, on wholly known operands and on operands weakened to admitting unknowns (sampled at every depth, plus a fixed catalogue x every single-position weakening x every refinement kind, enumerated completely); an oracle over the two results decides 'admits'. Held-on-observed-executions is the level this family can give for an all-inputs quantifier.",
         "Trusts mon.Admits (weakest reading; infinite bounds = unset), the generators' claim that each weakening admits what it replaces, math/big. Says nothing about operand shapes the generators do not produce (depth > 3, capsule operands).",
         "DESIGN.md 3/C01"),
 "C03": ("algebraic-law monitor over all pool pairs + model-set replay of ValueSet histories + hash-bucket invariant hook",
         "Equality/hash/order laws are evaluated on ALL ordered pairs (and sampled triples) of collision-rich per-type pools; ValueSet histories are replayed against a model set after every step with the bucket invariant read through a tag-guarded hook; SetVal is run over every permutation of drawn member lists. Exploration level: the quantifier is over all values and histories.",
         "Trusts the documented equality as modelled (model.NumEqualDoc, mon.ModelEqual), math/big text formatting, and the hook's copy of the buckets. Pools are finite; ordering demanded only for capsule-free wholly known members.",
         "DESIGN.md 3/C03"),
}
PENDING_REASON = "check not built yet in this session (design in DESIGN.md section 3); not claimed until its monitor runs silently on the unchanged tree"

props = [json.loads(l) for l in open(os.path.join(ROOT, "properties.jsonl"))]
hook_commits = subprocess.run(["git", "-C", "/repo", "log", "--format=%h %s", "--grep=^verif hooks"], capture_output=True, text=True).stdout.strip().splitlines()
checks, na = [], []
for p in props:
    pid = p["id"]
    if pid in CLAIMED:
        tech, text, note, ref = CLAIMED[pid]
        checks.append({
            "property_id": pid,
            "quick_cmd": f"/verif/check.sh {pid} quick",
            "thorough_cmd": f"/verif/check.sh {pid} thorough",
            "evidence_file": f"/verif/evidence/{pid}.json",
            "replay_cmd_template": f"/verif/check.sh {pid} --replay {{path}}",
            "engine": "vcheck",
            "level_claimed": {"category": "exploration", "text": text, "design_ref": ref},
            "level_note": note,
            "technique": tech,
        })
    else:
        na.append({"property_id": pid, "reason": PENDING_REASON})
m = {
 "version": 1,
 "setup_cmd": "/verif/setup.sh",
 "hooks": {
   "guard": "verif",
   "enable": "go build -tags verif (harness module /verif/harness replaces github.com/zclconf/go-cty with /repo)",
   "baseline_off_cmd": "cd /repo && GOFLAGS=-mod=mod GOPROXY=off GOSUMDB=off GOTOOLCHAIN=local go test -json -vet=off -count=1 -timeout 25m ./...",
   "source_commits": [c.split()[0] for c in hook_commits],
   "add_only": True,
 },
 "engines": [
   {"name": "vcheck", "path": "/verif/harness/cmd/vcheck", "serves_properties": sorted(CLAIMED), "kind_free_text": "Go harness: seeded workload generators, reference-model / relational monitors over executions of the real library, worker process per batch, evidence + replay writer"},
   {"name": "go race detector", "path": "go build -race", "serves_properties": ["C20"] if "C20" in CLAIMED else [], "kind_free_text": "compiler sanitizer (happens-before data-race detection)"},
 ],
 "checks": checks,
 "not_applicable": na,
 "notes": "All checks are runtime monitors over executions of the real code (level 'exploration'); see DESIGN.md. known_findings.json lists genuine defects (fixed ones with their fix: commit).",
}
json.dump(m, open(os.path.join(ROOT, "MANIFEST.json"), "w"), indent=1)
print("claimed:", sorted(CLAIMED), "pending:", len(na))
