#!/usr/bin/env python3
"""Regenerates /verif/MANIFEST.json.

A property is claimed iff it is listed in tools/claimed.txt (one id per line; the lead adds an id
only after the driver was silent on the unchanged tree at several seeds) AND its driver directory
holds MANIFEST_ENTRY.json {technique, text, note} AND cmd/vcheck/reg_<id>.go registers it. Every
other property goes to not_applicable with the reason given in tools/not_claimed.json (or the
default reason)."""
import json, os, subprocess
ROOT = os.path.dirname(os.path.dirname(os.path.abspath(__file__)))
DEFAULT_REASON = "check not finished in this session (design in DESIGN.md section 3); not claimed until its monitor runs silently on the unchanged tree"

claimed_ids = [l.strip() for l in open(os.path.join(ROOT, "tools", "claimed.txt")) if l.strip() and not l.startswith("#")]
reasons = {}
p = os.path.join(ROOT, "tools", "not_claimed.json")
if os.path.exists(p):
    reasons = json.load(open(p))
RACE = {"C20"}
QUICK_ONLY = set()

props = [json.loads(l) for l in open(os.path.join(ROOT, "properties.jsonl"))]
hook_commits = subprocess.run(["git", "-C", "/repo", "log", "--format=%h %s", "--grep=^verif hooks"], capture_output=True, text=True).stdout.strip().splitlines()
checks, na, served = [], [], []
for pr in props:
    pid = pr["id"]
    low = pid.lower()
    entry = os.path.join(ROOT, "harness", "props", low, "MANIFEST_ENTRY.json")
    reg = os.path.join(ROOT, "harness", "cmd", "vcheck", f"reg_{low}.go")
    if pid in claimed_ids and os.path.exists(entry) and os.path.exists(reg):
        e = json.load(open(entry))
        served.append(pid)
        checks.append({
            "property_id": pid,
            "quick_cmd": f"/verif/check.sh {pid} quick",
            "thorough_cmd": f"/verif/check.sh {pid} thorough",
            "evidence_file": f"/verif/evidence/{pid}.json",
            "replay_cmd_template": f"/verif/check.sh {pid} --replay {{path}}",
            "engine": "vcheck",
            "level_claimed": {"category": "exploration", "text": e["text"], "design_ref": f"DESIGN.md 3/{pid}"},
            "level_note": e["note"],
            "technique": e["technique"],
        })
    else:
        na.append({"property_id": pid, "reason": reasons.get(pid, DEFAULT_REASON)})
m = {
 "version": 1,
 "setup_cmd": "/verif/setup.sh",
 "hooks": {
   "guard": "verif",
   "enable": "go build -tags verif (harness module /verif/harness replaces github.com/zclconf/go-cty with /repo)",
   "baseline_off_cmd": "cd /repo && GOFLAGS=-mod=mod GOPROXY=off GOSUMDB=off GOTOOLCHAIN=local go test -json -vet=off -count=1 -timeout 25m ./...",
   "source_commits": [c.split()[0] for c in hook_commits],
   "add_only": True,
 },
 "engines": [
   {"name": "vcheck", "path": "/verif/harness/cmd/vcheck", "serves_properties": served, "kind_free_text": "Go harness: seeded workload generators, reference-model / relational monitors over executions of the real library, worker process per batch, evidence + replay writer"},
   {"name": "go race detector", "path": "go build -race", "serves_properties": [p for p in served if p in RACE], "kind_free_text": "compiler sanitizer (happens-before data-race detection) over the multi-goroutine stage of C20"},
   {"name": "porcupine", "path": "github.com/anishathalye/porcupine v1.3.0 (module cache)", "serves_properties": [p for p in served if p in RACE], "kind_free_text": "linearizability checker over the recorded multi-goroutine history of C20 stage c"},
 ],
 "checks": checks,
 "not_applicable": na,
 "notes": "All checks are runtime monitors over executions of the real code (level 'exploration'); see DESIGN.md. known_findings.json lists genuine defects (fixed ones with their fix: commit).",
}
json.dump(m, open(os.path.join(ROOT, "MANIFEST.json"), "w"), indent=1)
print("claimed:", served, "not claimed:", len(na))
