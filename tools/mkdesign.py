#!/usr/bin/env python3
"""Regenerates the machine-written part of DESIGN.md (everything after the marker line) from
known_findings.json, harness/props/*/NOTES.md, seeded/*/meta.json, evidence/*.json and MANIFEST.json."""
import json, os, re, glob
ROOT = os.path.dirname(os.path.dirname(os.path.abspath(__file__)))
MARK = "<!-- GENERATED BELOW: tools/mkdesign.py - do not edit by hand -->"
d = open(os.path.join(ROOT, "DESIGN.md")).read()
head = d.split(MARK)[0].rstrip() + "\n\n" + MARK + "\n\n"
out = []
man = json.load(open(os.path.join(ROOT, "MANIFEST.json")))
claimed = {c["property_id"]: c for c in man["checks"]}
props = [json.loads(l) for l in open(os.path.join(ROOT, "properties.jsonl"))]

def section(notes, pat):
    """text of the first '## ' section of notes whose heading matches pat"""
    m = re.search(r"^##+ [^\n]*(" + pat + r")[^\n]*\n(.*?)(?=^## |\Z)", notes, re.S | re.M | re.I)
    return (m.group(0).strip() if m else "")

out.append("## 10. What was built (status of every property)\n")
out.append("| property | claimed | technique | last quick run in /verif (cases / monitored calls / distinct non-trivial / wall) |")
out.append("|---|---|---|---|")
for p in props:
    pid = p["id"]; c = claimed.get(pid)
    ev = ""
    ep = os.path.join(ROOT, "evidence", pid + ".json")
    if os.path.exists(ep):
        try:
            e = json.load(open(ep)); cv = e["coverage"]
            ev = f'{e["tier"]}: {cv.get("cases","?")} / {cv["evaluations"]} / {cv["distinct_nontrivial"]} / {e["wall_s"]:.0f} s'
        except Exception: pass
    out.append(f'| {pid} {p["title"]} | {"yes" if c else "no"} | {(c or {}).get("technique","") } | {ev} |')
out.append("")
na = man.get("not_applicable", [])
if na:
    out.append("Not claimed: " + "; ".join(f'{x["property_id"]} ({x["reason"]})' for x in na) + "\n")

kf = json.load(open(os.path.join(ROOT, "known_findings.json")))["findings"]
out.append("## 11. Genuine defects found by the checks\n")
out.append("Every entry was reproduced against the real code by a stand-alone program before it was accepted as genuine. "
           "`fixed` = repaired by one minimal unguarded `fix:` commit in /repo (the repository's own suite, unedited, passes with it; the witness stays in the driver's corpus so a regression is reported again; the entry suppresses nothing). "
           "`known` = listed in known_findings.json because the repair is a redesign or cannot pass the unedited suite; the check prints `KNOWN-FINDING` for it and still reports any other violation of the same property.\n")
out.append("| id | property | status | commit | what failed |")
out.append("|---|---|---|---|---|")
for f in sorted(kf, key=lambda f: (f["property"], f["id"])):
    what = f["what"].replace("|", "\\|").replace("\n", " ")
    if len(what) > 260: what = what[:257] + "..."
    out.append(f'| {f["id"]} | {f["property"]} | {f["status"]} | {f.get("commit","")} | {what} |')
nfix = sum(1 for f in kf if f["status"] == "fixed"); nk = sum(1 for f in kf if f["status"] == "known")
out.append(f"\n{nfix} fixed, {nk} listed as known.\n")

out.append("## 12. Corrections: false alarms found while calibrating, and what was changed\n")
out.append("A check that fired on the unchanged tree was classified before anything else was done. Genuine defects are in section 11. "
           "The alarms below were the machinery's fault (oracle stricter than the statement, model or generator wrong, input outside the documented domain); "
           "the machinery was corrected, never the property, and no check that was right was loosened. Text taken from each driver's NOTES.md.\n")
for p in props:
    low = p["id"].lower()
    np_ = os.path.join(ROOT, "harness", "props", low, "NOTES.md")
    if not os.path.exists(np_): continue
    notes = open(np_).read()
    s = section(notes, r"false alarm|inherited oracle|inherited driver")
    if s:
        body = "\n".join(s.splitlines()[1:]).strip()
        out.append(f"### {p['id']}\n\n{body}\n")

out.append("## 13. Trusting the monitors: deliberate breaks and independently seeded changes\n")
out.append("### 13.1 Deliberate breaks by the check's author (scratch worktree, one at a time, quick tier)\n")
for p in props:
    low = p["id"].lower()
    np_ = os.path.join(ROOT, "harness", "props", low, "NOTES.md")
    if not os.path.exists(np_): continue
    s = section(open(np_).read(), r"deliberate break")
    if s:
        body = "\n".join(s.splitlines()[1:]).strip()
        hd = s.splitlines()[0].lstrip("# ")
        out.append(f"#### {p['id']} - {hd}\n\n{body}\n")
out.append("### 13.2 Seeded changes written blind (which check catches which change)\n")
out.append("Each change was written by a fresh sub-agent that was given only the text of one property and its own scratch worktree of /repo (nothing from /verif). "
           "It compiles and passes the repository's whole existing suite; its demonstration fails with the change and passes without it (confirmed by `tools/seedtest.py` in a scratch worktree, which is removed afterwards). "
           "The change, the demonstration and meta.json are kept under `/verif/seeded/<id>/`; none of them was ever committed to /repo. A seed that a check missed led to a stronger generator or a new observation point (recorded in the last column), never to cleverer inference.\n")
out.append("| seed | changed code (seeder's words) | needs, in order to manifest | caught by | history |")
out.append("|---|---|---|---|---|")
tot = caught = first = 0
for mp in sorted(glob.glob(os.path.join(ROOT, "seeded", "*", "meta.json"))):
    m = json.load(open(mp))
    cb = ", ".join(f'{k} ({v["signatures"][0].split("  (x")[0] if v["signatures"] else ""})' for k, v in m["checks_run"].items() if v["caught"]) or "MISSED"
    if cb == "MISSED" and m["history"].startswith("NOT"): cb = "not reported, on purpose (see history)"; notrep = globals().get("notrep", 0) + 1; globals()["notrep"] = notrep
    tot += 1; caught += not cb.startswith(("MISSED", "not reported")); first += (not cb.startswith(("MISSED", "not reported")) and m["history"].startswith("caught by the check as first built"))
    esc = lambda s: s.replace("|", "\\|").replace("\n", " ")
    out.append(f'| {m["seed"]} | {esc(m["breaks"])[:200]} | {esc(m.get("needs_to_manifest",""))[:200]} | {esc(cb)[:220]} | {esc(m["history"])[:330]} |')
out.append(f"\n{tot} confirmed seeded changes; {caught} caught by the current checks ({first} by the check as first built, {caught-first} after strengthening); {globals().get('notrep', 0)} deliberately not reported because the changed behaviour does not contradict the property as stated (explained in their history column).\n")
open(os.path.join(ROOT, "DESIGN.md"), "w").write(head + "\n".join(out) + "\n")
print("DESIGN.md regenerated:", len(out), "lines generated")
