#!/bin/sh
# addfixed.sh <id> <property> <commit> <site> <what...>
ID="$1"; PR="$2"; C="$3"; SITE="$4"; shift 4
python3 /verif/tools/addfinding.py "$(python3 -c '
import json,sys
print(json.dumps({"id":sys.argv[1],"property":sys.argv[2],"status":"fixed","commit":sys.argv[3],"site":sys.argv[4],"facet":"","what":" ".join(sys.argv[5:])}))' "$ID" "$PR" "$C" "$SITE" "$@")"
