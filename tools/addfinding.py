#!/usr/bin/env python3
"""addfinding.py '<json object>'  — append/replace (by id) an entry of known_findings.json."""
import json, sys, os
p = os.path.join(os.path.dirname(os.path.dirname(os.path.abspath(__file__))), "known_findings.json")
d = json.load(open(p))
e = json.loads(sys.argv[1])
if e.get("status") == "fixed" and "record" not in e:
    e["record"] = f"fixed: property={e['property']} {e['commit']} {e['what']}"
d["findings"] = [f for f in d["findings"] if f["id"] != e["id"]] + [e]
json.dump(d, open(p, "w"), indent=1, ensure_ascii=False)
print("findings:", len(d["findings"]))
