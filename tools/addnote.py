#!/usr/bin/env python3
"""addnote.py <cNN> <section regex> <text> : appends a bullet/paragraph at the end of the first '## ' section of
harness/props/<cNN>/NOTES.md whose heading matches the regex (case-insensitive); creates '## <regex>' if absent."""
import re, sys, os
cid, pat, text = sys.argv[1], sys.argv[2], sys.argv[3]
p = f"/verif/harness/props/{cid}/NOTES.md"
s = open(p).read()
m = re.search(r"^##+ [^\n]*(" + pat + r")[^\n]*\n(.*?)(?=^## |\Z)", s, re.S | re.M | re.I)
if not m:
    s = s.rstrip() + f"\n\n## {pat}\n\n{text}\n"
else:
    end = m.end()
    s = s[:end].rstrip() + "\n" + text + "\n\n" + s[end:]
open(p, "w").write(s)
