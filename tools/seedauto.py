#!/usr/bin/env python3
"""seedauto.py <CNN> <k>[,<k>...] [drivers]  — reads `demo: dest=.. pkg=.. run=..` from /var/tmp/seed-<CNN>-out/<k>/README.md,
runs seedtest.py, writes RESULT.json next to the seed and prints the one-line summary. drivers default: the property's own."""
import sys, re, subprocess, os, json, shlex
P = sys.argv[1]; ks = sys.argv[2].split(","); drivers = sys.argv[3] if len(sys.argv) > 3 else P.lower()
for k in ks:
    d = f"/var/tmp/{os.environ.get('SEEDPREFIX','seed')}-{P}-out/{k}"
    readme = open(os.path.join(d, "README.md")).read()
    m = re.search(r"^demo:\s*(.*)$", readme, re.M)
    if not m: print(d, "no demo: line"); continue
    line = m.group(1).replace("`", "")
    dest = re.search(r"dest=(\S+)", line).group(1)
    pkg = re.search(r"pkg=(\S+)", line).group(1)
    run = re.search(r"run=(.*)$", line)
    extra = shlex.split(run.group(1)) if run else []
    if extra and not extra[0].startswith("-"): extra = ["-run"] + extra
    # make sure the demo file is called demo*
    if not [f for f in os.listdir(d) if f.startswith("demo")]:
        print(d, "no demo file"); continue
    r = subprocess.run(["python3", "/verif/tools/seedtest.py", d, drivers, dest, pkg] + extra, capture_output=True, text=True)
    out = "\n".join(l for l in r.stdout.splitlines() if not l.startswith("WARNING conda"))
    open(os.path.join(d, "RESULT.json"), "w").write(out)
    f = subprocess.run(["python3", "/verif/tools/seedfmt.py"], input=out, capture_output=True, text=True)
    print(f.stdout.strip() or (out[-500:] + r.stderr[-500:]))
