#!/usr/bin/env python3
"""mutate.py <driver cNN> <mutants.json> [worktree]
Applies each mutant (file, old, new[, count]) to a scratch worktree of /repo, runs
VERIF_REPO=<wt> /verif/dev.sh cNN quick, records whether the check fired (exit 1 + VIOLATION),
optionally whether /repo's own suite notices (go test of the touched package), then reverts."""
import json, os, subprocess, sys, time
drv, mfile = sys.argv[1], sys.argv[2]
wt = sys.argv[3] if len(sys.argv) > 3 else "/var/tmp/wt-lead"
env = dict(os.environ, GOFLAGS="-mod=mod", GOPROXY="off", GOSUMDB="off", GOTOOLCHAIN="local")
muts = json.load(open(mfile))
res = []
for m in muts:
    subprocess.run(["git", "-C", wt, "checkout", "-q", "--", "."], check=True)
    p = os.path.join(wt, m["file"])
    s = open(p).read()
    if m["old"] not in s:
        print("SKIP (pattern not found):", m["name"]); res.append((m["name"], "pattern-missing", "")); continue
    s = s.replace(m["old"], m["new"], m.get("count", 1))
    open(p, "w").write(s)
    b = subprocess.run(["go", "build", "./..."], cwd=wt, env=env, capture_output=True, text=True)
    if b.returncode != 0:
        print("SKIP (does not compile):", m["name"], b.stderr[:300]); res.append((m["name"], "no-compile", "")); continue
    t = subprocess.run(["go", "test", "-vet=off", "-count=1", "./..."], cwd=wt, env=env, capture_output=True, text=True)
    suite = "suite-passes" if t.returncode == 0 else "suite-FAILS"
    t0 = time.time()
    r = subprocess.run(["/verif/dev.sh", drv, "quick"], env=dict(env, VERIF_REPO=wt), capture_output=True, text=True)
    fired = r.returncode == 1 and "VIOLATION property=" in r.stdout
    sigs = [l.strip() for l in r.stdout.splitlines() if l.strip().startswith("signature:")]
    print(f"{'CAUGHT' if fired else 'MISSED'} [{suite}] {m['name']}  exit={r.returncode} {time.time()-t0:.0f}s  {sigs[:2]}")
    res.append((m["name"], "caught" if fired else "missed", suite))
subprocess.run(["git", "-C", wt, "checkout", "-q", "--", "."], check=True)
print(json.dumps(res))
