#!/usr/bin/env python3
"""Copies every confirmed seeded change /var/tmp/seed-<CNN>-out/<K> (with RESULT.json written by seedbatch.sh)
into /verif/seeded/<CNN>-<K>/ {patch.diff, demo_test.go, README.md (the seeder's), meta.json}."""
import json, os, glob, shutil, re, subprocess
NOTES = json.load(open('/verif/tools/seed_notes.json')) if os.path.exists('/verif/tools/seed_notes.json') else {}
head = subprocess.run(['git','-C','/repo','log','--format=%h','-1'],capture_output=True,text=True).stdout.strip()
for rj in sorted(glob.glob('/var/tmp/seed-C*-out/*/RESULT.json')):
    d = os.path.dirname(rj); k = os.path.basename(d); prop = re.search(r'seed-(C\d\d)-out', d).group(1)
    try: r = json.load(open(rj))
    except Exception: continue
    valid = all(r.get(x) for x in ("builds","suite_passes_with_change","demo_fails_with_change","demo_passes_without_change")) and (r.get("applies") or r.get("applies_3way"))
    if not valid: print("skip (not confirmed):", d); continue
    out = f'/verif/seeded/{prop}-{k}'; os.makedirs(out, exist_ok=True)
    for f in os.listdir(d):
        if f in ('patch.diff','README.md') or f.startswith('demo'):
            shutil.copy(os.path.join(d,f), os.path.join(out,f))
    readme = open(os.path.join(d,'README.md')).read()
    checks = {kk[6:].upper(): {"caught": v["fired"], "signatures": v["signatures"][:4], "wall_s": v["wall_s"]} for kk,v in r.items() if kk.startswith("check_")}
    key = f"{prop}-{k}"
    meta = {
      "property": prop,
      "seed": key,
      "origin": "written by a fresh sub-agent that was given only the property text and a scratch worktree of /repo (nothing from /verif)",
      "breaks": readme.strip().splitlines()[0][:300] if readme.strip() else "",
      "needs_to_manifest": NOTES.get(key,{}).get("needs","") or ((re.search(r"^needs:\s*(.*)$", readme, re.M) or [None,""])[1]),
      "confirmed": {"applies_to_repo_head": head, "builds": True, "existing_suite_passes_with_change": True,
                    "demo_fails_with_change": True, "demo_passes_without_change": True,
                    "how": "tools/seedtest.py in a scratch worktree of /repo HEAD: git apply patch.diff; go build ./...; go test -vet=off -count=1 ./... (must pass); demo copied in and run (must fail); VERIF_REPO=<worktree> dev.sh <check> quick; git checkout; demo run again (must pass); worktree removed"},
      "checks_run": checks,
      "history": NOTES.get(key,{}).get("history","caught by the check as first built"),
    }
    json.dump(meta, open(os.path.join(out,'meta.json'),'w'), indent=1)
    print(key, {c: v["caught"] for c,v in checks.items()})
