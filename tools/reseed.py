#!/usr/bin/env python3
"""reseed.py [-j N] [seed ids...] — re-runs the property's own quick check against every saved seeded change
(/verif/seeded/<id>/patch.diff applied to a scratch worktree of /repo HEAD, removed afterwards) with the harness as it
is now, and writes seeded/RESEED.json + a one-line-per-seed summary. The seeds were confirmed (suite passes, demo
fails/passes) when they were saved; this only answers "does the current check still catch it"."""
import os, sys, json, subprocess, shutil, time, re
from concurrent.futures import ThreadPoolExecutor
ROOT = "/verif"
env = dict(os.environ, GOFLAGS="-mod=mod", GOPROXY="off", GOSUMDB="off", GOTOOLCHAIN="local")
args = sys.argv[1:]; jobs = 3
if args and args[0] == "-j": jobs = int(args[1]); args = args[2:]
ids = args or sorted(d for d in os.listdir(f"{ROOT}/seeded") if os.path.isdir(f"{ROOT}/seeded/{d}"))
by_prop = {}
for i in ids: by_prop.setdefault(i.split("-")[0], []).append(i)
def sh(cmd, cwd=None, e=env, timeout=5400):
    return subprocess.run(cmd, cwd=cwd, env=e, capture_output=True, text=True, errors="replace", timeout=timeout)
def run_prop(prop):
    out = {}
    for sid in by_prop[prop]:   # seeds of one property run one after the other (dev.sh's alt dir is per driver)
        wt = f"/var/tmp/reseed-wt-{sid}"
        sh(["git", "-C", "/repo", "worktree", "add", "-q", "--detach", wt, "HEAD"])
        try:
            r = sh(["git", "apply", f"{ROOT}/seeded/{sid}/patch.diff"], cwd=wt)
            if r.returncode != 0:
                r = sh(["git", "apply", "--3way", f"{ROOT}/seeded/{sid}/patch.diff"], cwd=wt)
            if r.returncode != 0:
                out[sid] = {"applies": False}; continue
            t0 = time.time()
            r = sh([f"{ROOT}/dev.sh", prop.lower(), "quick"], e=dict(env, VERIF_REPO=wt, VERIF_ALT_TAG="-reseed"))
            sigs = [l.strip()[11:] for l in r.stdout.splitlines() if l.strip().startswith("signature:")]
            out[sid] = {"applies": True, "caught": r.returncode == 1 and "VIOLATION property=" in r.stdout, "exit": r.returncode,
                        "wall_s": round(time.time() - t0), "signatures": sigs[:3], "inconclusive": r.stdout.count("INCONCLUSIVE")}
        finally:
            sh(["git", "-C", "/repo", "worktree", "remove", "--force", wt])
        print(sid, json.dumps(out[sid])[:300], flush=True)
    return out
res = {}
with ThreadPoolExecutor(jobs) as ex:
    for o in ex.map(run_prop, sorted(by_prop)): res.update(o)
head = subprocess.run(["git", "-C", "/repo", "log", "--format=%h", "-1"], capture_output=True, text=True).stdout.strip()
vh = subprocess.run(["git", "-C", ROOT, "log", "--format=%h", "-1"], capture_output=True, text=True).stdout.strip()
prev = {}
p = f"{ROOT}/seeded/RESEED.json"
if os.path.exists(p) and args: prev = json.load(open(p)).get("results", {})
prev.update(res)
json.dump({"repo_head": head, "verif_head_at_run": vh, "results": prev}, open(p, "w"), indent=1, sort_keys=True)
n = len(res); c = sum(1 for v in res.values() if v.get("caught"))
print(f"{c} of {n} caught; not caught: {[k for k, v in res.items() if not v.get('caught')]}")
