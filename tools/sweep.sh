#!/bin/sh
# sweep.sh <cNN> [seeds...] : run dev.sh quick at several seeds, print one line each
ID="$1"; shift
SEEDS="${*:-1 2 3 7 42 12345}"
for s in $SEEDS; do
  out=$(/verif/dev.sh "$ID" quick -seed "$s" 2>&1); rc=$?
  echo "$ID seed=$s rc=$rc :: $(echo "$out" | grep -c '^VIOLATION') violations; $(echo "$out" | grep -c '^KNOWN-FINDING') known; $(echo "$out" | tail -1 | cut -c1-200)"
done
