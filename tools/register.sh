#!/bin/sh
# register.sh <cNN>... : add reg file + claimed entry, regenerate manifest, run the registered quick check
export GOFLAGS=-mod=mod GOPROXY=off GOSUMDB=off GOTOOLCHAIN=local
for ID in "$@"; do
  UP=$(echo "$ID" | tr a-z A-Z)
  [ -f /verif/harness/props/$ID/MANIFEST_ENTRY.json ] || { echo "$ID: no MANIFEST_ENTRY.json"; continue; }
  cat > /verif/harness/cmd/vcheck/reg_$ID.go <<EOG
package main

import (
	"verif/harness/core"
	"verif/harness/props/$ID"
)

func init() { core.Register($ID.Driver{}) }
EOG
  grep -qx "$UP" /verif/tools/claimed.txt || echo "$UP" >> /verif/tools/claimed.txt
done
sort -o /verif/tools/claimed.txt /verif/tools/claimed.txt
python3 /verif/tools/mkmanifest.py
for ID in "$@"; do
  UP=$(echo "$ID" | tr a-z A-Z)
  /verif/check.sh $UP quick 2>&1 | tail -2 | cut -c1-220
done
python3-vt - <<'EOP'
import json,jsonschema,glob
jsonschema.validate(json.load(open('/verif/MANIFEST.json')),json.load(open('/root/.vp/MANIFEST.schema.json'))); print('manifest valid')
m=json.load(open('/verif/MANIFEST.json'))
for c in m['checks']:
    try:
        jsonschema.validate(json.load(open(c['evidence_file'])),json.load(open('/root/.vp/EVIDENCE.schema.json')))
    except Exception as e: print(c['property_id'],'EVIDENCE INVALID',str(e)[:200])
EOP
