#!/bin/sh
# allchecks.sh <quick|thorough> [seed] : run every registered check from this tree's check.sh, one after the other; summary at the end
HERE="$(cd "$(dirname "$0")/.." && pwd)"
TIER="${1:-quick}"; SEED="${2:-1}"
mkdir -p "$HERE/.build/logs"
fail=0
for P in $(python3 -c "import json;print(' '.join(c['property_id'] for c in json.load(open('$HERE/MANIFEST.json'))['checks']))"); do
  t0=$(date +%s)
  VERIF_SEED=$SEED "$HERE/check.sh" $P $TIER > "$HERE/.build/logs/$P-$TIER-s$SEED.log" 2>&1; rc=$?
  t1=$(date +%s)
  echo "$P $TIER seed=$SEED rc=$rc $((t1-t0))s :: $(grep -c '^VIOLATION' "$HERE/.build/logs/$P-$TIER-s$SEED.log") violations, $(grep -c '^KNOWN-FINDING' "$HERE/.build/logs/$P-$TIER-s$SEED.log") known, $(grep -c '^INCONCLUSIVE' "$HERE/.build/logs/$P-$TIER-s$SEED.log") inconclusive"
  [ $rc -ne 0 ] && { fail=1; grep -A3 '^VIOLATION\|OBSERVED-NOTHING\|BUILD-FAILED' "$HERE/.build/logs/$P-$TIER-s$SEED.log" | cut -c1-600 | head -40; }
done
exit $fail
