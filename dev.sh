#!/bin/sh
# dev.sh <cNN> [quick|thorough] [extra vcheck flags]: build and run ONE driver through its own
# tiny main (harness/cmd/dev/<cNN>/main.go), so that work on other drivers cannot break the build.
#
# VERIF_REPO=/path/to/scratch/copy  builds against that copy of go-cty instead of /repo
#   (used for trying a fix or a deliberate break in a scratch worktree). In that mode evidence,
#   replays and run directories go to a private root under .build/alt/<cNN>/ so that nothing
#   registered is overwritten.
set -u
ROOT="$(cd "$(dirname "$0")" && pwd)"
export GOFLAGS=-mod=mod GOPROXY=off GOSUMDB=off GOTOOLCHAIN=local
ID="$1"; shift
TIER="${1:-quick}"; [ $# -gt 0 ] && shift
UP=$(echo "$ID" | tr a-z A-Z)
mkdir -p "$ROOT/.build"
RACE=""
[ "$ID" = "c20" ] && RACE=1
if [ -n "${VERIF_REPO:-}" ]; then
  ALT="$ROOT/.build/alt/$ID${VERIF_ALT_TAG:-}"
  mkdir -p "$ALT/evidence"
  sed "s#=> /repo#=> $VERIF_REPO#" "$ROOT/harness/go.mod" > "$ALT/go.mod"
  cp "$ROOT/harness/go.sum" "$ALT/go.sum"
  cp "$ROOT/known_findings.json" "$ALT/known_findings.json"
  export VERIF_ROOT="$ALT"
  cd "$ROOT/harness" && go build -modfile="$ALT/go.mod" -tags verif -o "$ALT/dev_$ID" "./cmd/dev/$ID" || exit 2
  if [ -n "$RACE" ]; then
    go build -modfile="$ALT/go.mod" -race -tags verif -o "$ALT/dev_${ID}_race" "./cmd/dev/$ID" || exit 2
    export VCHECK_RACE_EXE="$ALT/dev_${ID}_race"
  fi
  cd "$ROOT" && exec "$ALT/dev_$ID" -prop "$UP" -tier "$TIER" "$@"
fi
export VERIF_ROOT="$ROOT"
cd "$ROOT/harness" && go build -tags verif -o "$ROOT/.build/dev_$ID" "./cmd/dev/$ID" || exit 2
if [ -n "$RACE" ]; then
  go build -race -tags verif -o "$ROOT/.build/dev_${ID}_race" "./cmd/dev/$ID" || exit 2
  export VCHECK_RACE_EXE="$ROOT/.build/dev_${ID}_race"
fi
cd "$ROOT" && exec "$ROOT/.build/dev_$ID" -prop "$UP" -tier "$TIER" "$@"
