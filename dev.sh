#!/bin/sh
# dev.sh <cNN> [quick|thorough] [extra vcheck flags]: build and run ONE driver through its own
# tiny main (harness/cmd/dev/<cNN>/main.go), so that work on other drivers cannot break the build.
set -u
ROOT="$(cd "$(dirname "$0")" && pwd)"
export GOFLAGS=-mod=mod GOPROXY=off GOSUMDB=off GOTOOLCHAIN=local VERIF_ROOT="$ROOT"
ID="$1"; shift
TIER="${1:-quick}"; [ $# -gt 0 ] && shift
UP=$(echo "$ID" | tr a-z A-Z)
mkdir -p "$ROOT/.build"
cd "$ROOT/harness" && go build -tags verif -o "$ROOT/.build/dev_$ID" "./cmd/dev/$ID" || exit 2
cd "$ROOT" && exec "$ROOT/.build/dev_$ID" -prop "$UP" -tier "$TIER" "$@"
